//go:build verif_all || verif_c29

package main

import (
	"bytes"
	"context"
	"errors"
	"fmt"
	"io"
	"os"
	"sort"
	"strconv"
	"strings"
	"sync"
	"time"

	"github.com/els0r/goProbe/v4/cmd/goProbe/config"
	"github.com/els0r/goProbe/v4/pkg/capture"
	"github.com/els0r/goProbe/v4/pkg/capture/capturetypes"
	"github.com/els0r/goProbe/v4/pkg/goDB"
	"github.com/els0r/goProbe/v4/pkg/goDB/conditions/node"
	"github.com/els0r/goProbe/v4/pkg/goDB/encoder/encoders"
	"github.com/els0r/goProbe/v4/pkg/goDB/engine"
	"github.com/els0r/goProbe/v4/pkg/goprobe/writeout"
	"github.com/els0r/goProbe/v4/pkg/query"
	"github.com/els0r/goProbe/v4/pkg/results"
	"github.com/els0r/goProbe/v4/pkg/types"
	"github.com/els0r/goProbe/v4/pkg/types/hashmap"
	"github.com/els0r/telemetry/logging"
	"github.com/fako1024/gotools/link"
	slimcap "github.com/fako1024/slimcap/capture"
)

// C29 — live queries see the current flows with the semantics of stored flows and change nothing.
//
// One case = a history on ONE real capture.Manager with two interfaces (a = "verifa", b = "verifb")
// whose captures run the real capture loop on scripted sources, a real GoDB write-out handler on a
// temporary database and the real query engine with engine.WithLiveData(manager):
//
//   C29 <op> <op> …
//     <a|b><4|6>:<hash hex>:<ptype>:<size>:<aux>   one packet on that interface; <hash> is the parsed
//                                                   5-tuple (sip sport dip dport proto, 13 / 37 bytes); the
//                                                   harness builds the IP layer that the real parser turns
//                                                   into exactly this hash and auxiliary byte
//     R                                             the scheduled write-out of all interfaces
//     Q:<attrs>:<cond>:<ifaces>:<dir>               a live query: <attrs> ⊆ sip,dip,dport,proto,time,iface
//                                                   (comma separated), <cond> = `-` or a condition tree in
//                                                   C09's prefix notation, <ifaces> ⊆ {a,b} as a string
//
// Output (space separated fields, k = number of the query, j = number of the write-out):
//   m<k>=<log a>/<log b>    the flow logs (hash:br:bs:pr:ps, sorted) when the query starts
//   f<k>=<map a>/<map b>    what Manager.GetFlowMaps(QueryFilter(query)) sends per interface (`nil` = nothing)
//   s<k>=<result>           the engine's result of the same query without live data
//   l<k>=<result>           the engine's result of the live query
//   ro<k>=0|1               the flow logs are the same after the two live calls
//   w<j>=<map a>/<map b>    what write-out j handed to the write-out handler
//   ni=0|1                  the same history WITHOUT the queries, on a second manager and database, handed
//                           the same maps to the handler at every write-out and left the same flow logs
//   db=<digest>:<n>         digest and number of rows of `sip,dip,dport,proto,time,iface` over the database
//   dbni=0|1                the database of the second run reads back identically
// or err:<kind> / panic.

const (
	c29TsBase = int64(1700000100)
	c29Mod    = uint64(2147483647)
)

var (
	c29WorkDir string
	c29Ifaces  = map[byte]string{'a': "verifa", 'b': "verifb"}
)

// ---------------------------------------------------------------- scripted source

type c29Pkt struct {
	layer []byte
	ptype byte
	size  uint32
}

type c29Source struct {
	mu      sync.Mutex
	cond    *sync.Cond
	queue   []c29Pkt
	unblock int
	closed  bool
	waiting bool
}

func newC29Source() *c29Source {
	s := &c29Source{}
	s.cond = sync.NewCond(&s.mu)
	return s
}

func (s *c29Source) NextIPPacketZeroCopy() (slimcap.IPLayer, slimcap.PacketType, uint32, error) {
	s.mu.Lock()
	defer s.mu.Unlock()
	for {
		if s.closed {
			return nil, slimcap.PacketUnknown, 0, slimcap.ErrCaptureStopped
		}
		if s.unblock > 0 {
			s.unblock--
			return nil, slimcap.PacketUnknown, 0, slimcap.ErrCaptureUnblocked
		}
		if len(s.queue) > 0 {
			p := s.queue[0]
			s.queue = s.queue[1:]
			return slimcap.IPLayer(p.layer), p.ptype, p.size, nil
		}
		s.waiting = true
		s.cond.Broadcast()
		s.cond.Wait()
		s.waiting = false
	}
}
func (s *c29Source) NextPayloadZeroCopy() ([]byte, slimcap.PacketType, uint32, error) {
	return nil, slimcap.PacketUnknown, 0, slimcap.ErrCaptureStopped
}
func (s *c29Source) NewPacket() slimcap.Packet { return nil }
func (s *c29Source) NextPacket(slimcap.Packet) (slimcap.Packet, error) {
	return nil, slimcap.ErrCaptureStopped
}
func (s *c29Source) NextPayload([]byte) ([]byte, byte, uint32, error) {
	return nil, 0, 0, slimcap.ErrCaptureStopped
}
func (s *c29Source) NextIPPacket(slimcap.IPLayer) (slimcap.IPLayer, slimcap.PacketType, uint32, error) {
	return nil, 0, 0, slimcap.ErrCaptureStopped
}
func (s *c29Source) NextPacketFn(func([]byte, uint32, slimcap.PacketType, byte) error) error {
	return slimcap.ErrCaptureStopped
}
func (s *c29Source) Stats() (slimcap.Stats, error) { return slimcap.Stats{}, nil }
func (s *c29Source) Link() *link.Link              { return &link.EmptyEthernetLink }
func (s *c29Source) Unblock() error {
	s.mu.Lock()
	s.unblock++
	s.cond.Broadcast()
	s.mu.Unlock()
	return nil
}
func (s *c29Source) Close() error {
	s.mu.Lock()
	s.closed = true
	s.cond.Broadcast()
	s.mu.Unlock()
	return nil
}

// idle waits until the capture loop has taken everything queued and is back waiting for a packet
func (s *c29Source) idle() bool {
	s.mu.Lock()
	defer s.mu.Unlock()
	deadline := time.Now().Add(300 * time.Second) // generous: the check may share the machine
	for !(s.closed || (s.waiting && s.unblock == 0 && len(s.queue) == 0)) {
		if time.Now().After(deadline) {
			return false
		}
		s.mu.Unlock()
		time.Sleep(10 * time.Microsecond)
		s.mu.Lock()
	}
	return !s.closed
}

func (s *c29Source) inject(p c29Pkt) bool {
	s.mu.Lock()
	if s.closed {
		s.mu.Unlock()
		return false
	}
	s.queue = append(s.queue, p)
	s.cond.Broadcast()
	s.mu.Unlock()
	return s.idle()
}

// ---------------------------------------------------------------- packets

// c29Layer builds the IP layer the real parser turns into the parsed 5-tuple h and auxiliary byte aux
func c29Layer(v6 bool, h []byte, aux byte) []byte {
	if !v6 {
		b := make([]byte, 40)
		b[0] = 0x45
		b[8] = 64
		b[9] = h[12]
		copy(b[12:16], h[0:4])
		copy(b[16:20], h[6:10])
		switch h[12] {
		case 6:
			copy(b[20:22], h[4:6])
			copy(b[22:24], h[10:12])
			b[33] = aux
		case 17:
			copy(b[20:22], h[4:6])
			copy(b[22:24], h[10:12])
		case 1:
			b[20] = aux
		}
		return b
	}
	b := make([]byte, 60)
	b[0] = 0x60
	b[6] = h[36]
	b[7] = 64
	copy(b[8:24], h[0:16])
	copy(b[24:40], h[18:34])
	switch h[36] {
	case 6:
		copy(b[40:42], h[16:18])
		copy(b[42:44], h[34:36])
		b[53] = aux
	case 17:
		copy(b[40:42], h[16:18])
		copy(b[42:44], h[34:36])
	case 58:
		b[40] = aux
	}
	return b
}

// c29Consistent: the real parser yields exactly (h, aux) on the layer built from them
func c29Consistent(v6 bool, h []byte, aux byte) bool {
	l := c29Layer(v6, h, aux)
	if !v6 {
		got, a, errno := capture.ParsePacketV4(l)
		return errno == capturetypes.ErrnoOK && bytes.Equal(got[:], h) && a == aux
	}
	got, a, errno := capture.ParsePacketV6(l)
	return errno == capturetypes.ErrnoOK && bytes.Equal(got[:], h) && a == aux
}

// ---------------------------------------------------------------- canonical rendering

type c29Rec struct {
	key            []byte
	br, bs, pr, ps uint64
}

func c29Render(recs []c29Rec) string {
	sort.Slice(recs, func(i, j int) bool {
		if len(recs[i].key) != len(recs[j].key) {
			return len(recs[i].key) < len(recs[j].key)
		}
		return bytes.Compare(recs[i].key, recs[j].key) < 0
	})
	var xs []string
	for _, r := range recs {
		xs = append(xs, fmt.Sprintf("%s:%d:%d:%d:%d", hexBytes(r.key), r.br, r.bs, r.pr, r.ps))
	}
	return listField(xs)
}

func c29Log(fl *capture.FlowLog) string {
	if fl == nil {
		return "none"
	}
	var recs []c29Rec
	for k, f := range fl.FlowsV4() {
		recs = append(recs, c29Rec{[]byte(k), f.BytesRcvd, f.BytesSent, f.PacketsRcvd, f.PacketsSent})
	}
	for k, f := range fl.FlowsV6() {
		recs = append(recs, c29Rec{[]byte(k), f.BytesRcvd, f.BytesSent, f.PacketsRcvd, f.PacketsSent})
	}
	return c29Render(recs)
}

func c29Agg(m *hashmap.AggFlowMap) string {
	if m == nil {
		return "nil"
	}
	var recs []c29Rec
	for it := m.Iter(); it.Next(); {
		k := append([]byte(nil), it.Key()...)
		v := it.Val()
		recs = append(recs, c29Rec{k, v.BytesRcvd, v.BytesSent, v.PacketsRcvd, v.PacketsSent})
	}
	return c29Render(recs)
}

func c29Has(attrs []string, a string) bool {
	for _, x := range attrs {
		if x == a {
			return true
		}
	}
	return false
}

// c29Rows renders an engine result: iface@<ts|live|->/sip:dip:dport:proto:br:bs:pr:ps, `-` = not selected
func c29Rows(res *results.Result, attrs []string) string {
	if res == nil {
		return "err:nil-result"
	}
	if res.Status.Code != types.StatusOK && res.Status.Code != types.StatusEmpty && res.Status.Code != types.StatusMissingData {
		return "err:status-" + esc(string(res.Status.Code))
	}
	sel := func(a, v string) string {
		if c29Has(attrs, a) {
			return v
		}
		return "-"
	}
	var rows []string
	for _, r := range res.Rows {
		ts := "live"
		if !r.Labels.Timestamp.IsZero() {
			ts = strconv.FormatInt(r.Labels.Timestamp.Unix(), 10)
		}
		rows = append(rows, fmt.Sprintf("%s@%s/%s:%s:%s:%s:%d:%d:%d:%d", r.Labels.Iface, sel("time", ts),
			sel("sip", addrHex(r.Attributes.SrcIP)), sel("dip", addrHex(r.Attributes.DstIP)),
			sel("dport", strconv.Itoa(int(r.Attributes.DstPort))), sel("proto", strconv.Itoa(int(r.Attributes.IPProto))),
			r.Counters.BytesRcvd, r.Counters.BytesSent, r.Counters.PacketsRcvd, r.Counters.PacketsSent))
	}
	sort.Strings(rows)
	t := res.Summary.Totals
	return fmt.Sprintf("rows=%s|totals=%d:%d:%d:%d|hits=%d", listField(rows), t.BytesRcvd, t.BytesSent, t.PacketsRcvd, t.PacketsSent, res.Summary.Hits.Total)
}

// ---------------------------------------------------------------- write-out handler (tee)

// c29Handler records what every write-out hands over and passes it on to the real GoDB handler
type c29Handler struct {
	real *writeout.GoDBHandler
	mu   sync.Mutex
	wo   []string // per write-out: <map a>/<map b>
}

func (h *c29Handler) HandleWriteout(ctx context.Context, ts time.Time, ch <-chan capturetypes.TaggedAggFlowMap) <-chan struct{} {
	fwd := make(chan capturetypes.TaggedAggFlowMap, writeout.WriteoutsChanDepth)
	realDone := h.real.HandleWriteout(ctx, ts, fwd)
	done := make(chan struct{})
	go func() {
		defer close(done)
		got := map[string]string{}
		for m := range ch {
			got[m.Iface] = c29Agg(m.Map) // rendered before the writer sees (and may consume) the map
			fwd <- m
		}
		close(fwd)
		<-realDone
		h.mu.Lock()
		h.wo = append(h.wo, c29Pair(got))
		h.mu.Unlock()
	}()
	return done
}

func c29Pair(m map[string]string) string {
	get := func(i string) string {
		if v, ok := m[i]; ok {
			return v
		}
		return "none"
	}
	return get(c29Ifaces['a']) + "/" + get(c29Ifaces['b'])
}

// ---------------------------------------------------------------- one run of a history

type c29World struct {
	cm      *capture.Manager
	h       *c29Handler
	db      string
	sources map[string]*c29Source
	nRot    int
}

func newC29World() (*c29World, error) {
	db, err := os.MkdirTemp(c29WorkDir, "db-")
	if err != nil {
		return nil, err
	}
	w := &c29World{db: db, sources: map[string]*c29Source{}}
	w.h = &c29Handler{real: writeout.NewGoDBHandler(db, encoders.EncoderTypeLZ4)}
	names := []string{c29Ifaces['a'], c29Ifaces['b']}
	var mu sync.Mutex
	w.cm = capture.NewManager(w.h,
		capture.WithSkipWriteoutSchedule(true),
		capture.WithSourceInitFn(func(c *capture.Capture) (capture.Source, error) {
			s := newC29Source()
			mu.Lock()
			w.sources[c.Iface()] = s
			mu.Unlock()
			return s, nil
		}))
	cfg := &config.Config{Interfaces: config.Ifaces{}}
	for _, n := range names {
		cfg.Interfaces[n] = config.CaptureConfig{RingBuffer: &config.RingBufferConfig{BlockSize: 1048576, NumBlocks: 4}}
	}
	if _, _, _, err := w.cm.Update(context.Background(), cfg); err != nil {
		w.close()
		return nil, err
	}
	for _, n := range names {
		if s := w.sources[n]; s == nil || !s.idle() {
			w.close()
			return nil, errors.New("capture did not start")
		}
	}
	return w, nil
}

func (w *c29World) close() {
	if w.cm != nil {
		w.cm.Close(context.Background())
	}
	os.RemoveAll(w.db)
}

func (w *c29World) logs() string {
	return c29Log(w.cm.VerifFlowLogOf(c29Ifaces['a'])) + "/" + c29Log(w.cm.VerifFlowLogOf(c29Ifaces['b']))
}

func (w *c29World) packet(op string) string {
	p := strings.Split(op[1:], ":")
	if len(p) != 5 || (p[0] != "4" && p[0] != "6") {
		return "err:bad-op"
	}
	v6 := p[0] == "6"
	h := unhex(p[1])
	pt, e1 := strconv.ParseUint(p[2], 10, 8)
	sz, e2 := strconv.ParseUint(p[3], 10, 32)
	aux, e3 := strconv.ParseUint(p[4], 10, 8)
	if e1 != nil || e2 != nil || e3 != nil || (!v6 && len(h) != capturetypes.EPHashSizeV4) || (v6 && len(h) != capturetypes.EPHashSizeV6) {
		return "err:bad-op"
	}
	if !c29Consistent(v6, h, byte(aux)) {
		return "err:inconsistent-hash"
	}
	s := w.sources[c29Ifaces[op[0]]]
	if s == nil || !s.inject(c29Pkt{c29Layer(v6, h, byte(aux)), byte(pt), uint32(sz)}) {
		return "err:stuck"
	}
	return ""
}

func (w *c29World) rotate() {
	w.cm.VerifPerformWriteout(context.Background(), time.Unix(c29TsBase+300*int64(w.nRot), 0))
	w.nRot++
}

func c29IfaceNames(sel string) []string {
	var out []string
	for i := 0; i < len(sel); i++ {
		if n, ok := c29Ifaces[sel[i]]; ok {
			out = append(out, n)
		}
	}
	return out
}

// engineQuery runs the query through the real engine (QueryRunner.Run: Args.Prepare, interface
// resolution against the database, RunStatement)
func (w *c29World) engineQuery(attrs []string, condText string, ifaces []string, live bool) string {
	opts := []query.Option{
		query.WithFirst(strconv.FormatInt(c29TsBase-86400, 10)),
		query.WithNumResults(1 << 40), query.WithFormat("json"), query.WithMaxMemPct(90),
	}
	if condText != "" {
		opts = append(opts, query.WithCondition(condText))
	}
	if live {
		opts = append(opts, query.WithLive())
	}
	a := query.NewArgs(strings.Join(attrs, ","), strings.Join(ifaces, ","), opts...).AddOutputs(io.Discard)
	ctx, cancel := context.WithTimeout(context.Background(), 600*time.Second)
	defer cancel()
	res, err := engine.NewQueryRunner(w.db, engine.WithLiveData(w.cm)).Run(ctx, a)
	if err != nil {
		switch m := err.Error(); {
		case strings.Contains(m, "failed to prepare query statement: no interfaces"), strings.Contains(m, "no interfaces provided"):
			return "err:iface"
		case strings.Contains(m, "failed to prepare query statement"), strings.Contains(m, "conditions parsing error"):
			return "err:prepare"
		}
		return "err:" + errClass(err)
	}
	return c29Rows(res, attrs)
}

// liveMaps calls the real Manager.GetFlowMaps with the real QueryFilter of the query
func (w *c29World) liveMaps(attrs []string, condText string, ifaces []string) string {
	queryAttributes, selector, err := types.ParseQueryType(strings.Join(attrs, ","))
	if err != nil {
		return "err:attrs"
	}
	var cond node.Node
	if condText != "" {
		if cond, _, err = node.ParseAndInstrument(condText, time.Second); err != nil {
			return c09ErrKind(err)
		}
	}
	q := goDB.NewQuery(queryAttributes, cond, selector)
	ch := make(chan hashmap.AggFlowMapWithMetadata, 16)
	w.cm.GetFlowMaps(context.Background(), goDB.QueryFilter(q), ch, ifaces...)
	close(ch)
	got := map[string]string{}
	for m := range ch {
		if _, dup := got[m.Interface]; dup {
			return "err:duplicate-iface"
		}
		got[m.Interface] = c29Agg(m.AggFlowMap)
	}
	get := func(i string) string {
		if v, ok := got[i]; ok {
			return v
		}
		return "nil"
	}
	return get(c29Ifaces['a']) + "/" + get(c29Ifaces['b'])
}

func c09ErrKind(err error) string {
	m := err.Error()
	switch {
	case strings.Contains(m, "not allowed for attribute"), strings.Contains(m, "invalid comparison operator"):
		return "err:comparator"
	case strings.Contains(m, "incorrect netmask"):
		return "err:netmask"
	}
	return "err:other"
}

// c29History runs the operations; with withQueries = false the Q operations are skipped
func c29History(ops []string, withQueries bool) (out []string, wo []string, finalLogs, db string, errKind string) {
	w, err := newC29World()
	if err != nil {
		return nil, nil, "", "", "err:setup"
	}
	defer w.close()
	nQ := 0
	for _, op := range ops {
		switch {
		case op == "R":
			w.rotate()
		case strings.HasPrefix(op, "Q:"):
			if !withQueries {
				continue
			}
			p := strings.Split(op, ":")
			if len(p) != 5 {
				return nil, nil, "", "", "err:bad-op"
			}
			switch p[4] {
			case "-", "in", "out", "uni", "bi":
			default:
				return nil, nil, "", "", "err:bad-op"
			}
			attrs := strings.Split(p[1], ",")
			condText := ""
			if p[2] != "-" {
				t, rest, err := c29CondText(splitList(p[2]))
				if err != nil || len(rest) != 0 {
					return nil, nil, "", "", "err:bad-op"
				}
				condText = t
			}
			if p[4] != "-" {
				if condText == "" {
					condText = "dir = " + p[4]
				} else {
					condText = "dir = " + p[4] + " & " + condText
				}
			}
			ifaces := c29IfaceNames(p[3])
			if len(ifaces) == 0 {
				return nil, nil, "", "", "err:bad-op"
			}
			nQ++
			before := w.logs()
			f := w.liveMaps(attrs, condText, ifaces)
			s := w.engineQuery(attrs, condText, ifaces, false)
			l := w.engineQuery(attrs, condText, ifaces, true)
			after := w.logs()
			out = append(out, fmt.Sprintf("m%d=%s f%d=%s s%d=%s l%d=%s ro%d=%s", nQ, before, nQ, f, nQ, s, nQ, l, nQ, b2s(before == after)))
		case len(op) > 2 && (op[0] == 'a' || op[0] == 'b'):
			if e := w.packet(op); e != "" {
				return nil, nil, "", "", e
			}
		default:
			return nil, nil, "", "", "err:bad-op"
		}
	}
	w.h.mu.Lock()
	wo = append([]string(nil), w.h.wo...)
	w.h.mu.Unlock()
	finalLogs = w.logs()
	db = "rows=-|totals=0:0:0:0|hits=0"
	if w.nRot > 0 {
		db = queryRows(w.db, c29Ifaces['a']+","+c29Ifaces['b'], c29TsBase-86400, c29TsBase+300*int64(w.nRot)+86400, "")
	}
	return out, wo, finalLogs, db, ""
}

func c29Digest(s string) uint64 {
	d := uint64(7)
	for i := 0; i < len(s); i++ {
		d = (d*1000003 + uint64(s[i])) % c29Mod
	}
	return d
}

func c29Run(f []string) string {
	out, wo, logs, db, e := c29History(f, true)
	if e != "" {
		return e
	}
	_, wo2, logs2, db2, e := c29History(f, false)
	if e != "" {
		return e
	}
	for j, w := range wo {
		out = append(out, fmt.Sprintf("w%d=%s", j+1, w))
	}
	ni := len(wo) == len(wo2) && logs == logs2
	if ni {
		for j := range wo {
			ni = ni && wo[j] == wo2[j]
		}
	}
	nRows := 0
	if i := strings.Index(db, "|hits="); i >= 0 {
		nRows, _ = strconv.Atoi(db[i+6:])
	}
	out = append(out, "mem="+logs, "ni="+b2s(ni), fmt.Sprintf("db=%d:%d", c29Digest(db), nRows), "dbni="+b2s(db == db2))
	return strings.Join(out, " ")
}

// c29CondText renders a C09 prefix-notation tree as condition text (same rendering as harness/c09.go)
func c29CondText(toks []string) (string, []string, error) {
	if len(toks) == 0 {
		return "", nil, fmt.Errorf("truncated tree")
	}
	switch toks[0] {
	case "&", "|":
		l, rest, err := c29CondText(toks[1:])
		if err != nil {
			return "", nil, err
		}
		r, rest, err := c29CondText(rest)
		if err != nil {
			return "", nil, err
		}
		return "(" + l + " " + toks[0] + " " + r + ")", rest, nil
	case "!":
		x, rest, err := c29CondText(toks[1:])
		if err != nil {
			return "", nil, err
		}
		return "!(" + x + ")", rest, nil
	}
	i := 0
	for i < len(toks[0]) && toks[0][i] >= 'a' && toks[0][i] <= 'z' {
		i++
	}
	j := i
	for j < len(toks[0]) && strings.IndexByte("=!<>", toks[0][j]) >= 0 {
		j++
	}
	attr, cmp, val := toks[0][:i], toks[0][i:j], toks[0][j:]
	switch cmp {
	case "=", "!=", "<", ">", "<=", ">=":
	default:
		return "", nil, fmt.Errorf("bad comparator %q", cmp)
	}
	vt, err := c29ValueText(attr, val)
	if err != nil {
		return "", nil, err
	}
	return attr + " " + cmp + " " + vt, toks[1:], nil
}

func c29IPText(b []byte) string {
	if len(b) == 4 {
		return fmt.Sprintf("%d.%d.%d.%d", b[0], b[1], b[2], b[3])
	}
	var g []string
	for i := 0; i < 16; i += 2 {
		g = append(g, fmt.Sprintf("%x", int(b[i])<<8|int(b[i+1])))
	}
	return strings.Join(g, ":")
}

func c29ValueText(attr, v string) (string, error) {
	switch attr {
	case "sip", "dip", "host", "src", "dst":
		b := unhexSafe(v)
		if len(b) != 4 && len(b) != 16 {
			return "", fmt.Errorf("bad address %q", v)
		}
		return c29IPText(b), nil
	case "snet", "dnet", "net":
		i := strings.IndexByte(v, '/')
		if i < 0 {
			return "", fmt.Errorf("bad network %q", v)
		}
		b := unhexSafe(v[:i])
		if len(b) != 4 && len(b) != 16 {
			return "", fmt.Errorf("bad network %q", v)
		}
		if _, err := strconv.ParseUint(v[i+1:], 10, 16); err != nil {
			return "", fmt.Errorf("bad prefix %q", v)
		}
		return c29IPText(b) + v[i:], nil
	case "dport", "port":
		if _, err := strconv.ParseUint(v, 10, 32); err != nil {
			return "", fmt.Errorf("bad port %q", v)
		}
		return v, nil
	case "proto", "protocol", "ipproto":
		if strings.HasPrefix(v, "n") {
			names := map[string]string{"n1": "icmp", "n6": "tcp", "n17": "udp"}
			if names[v] == "" {
				return "", fmt.Errorf("bad protocol %q", v)
			}
			return names[v], nil
		}
		if _, err := strconv.ParseUint(v, 10, 32); err != nil {
			return "", fmt.Errorf("bad protocol %q", v)
		}
		return v, nil
	}
	return "", fmt.Errorf("bad attribute %q", attr)
}

func unhexSafe(s string) (b []byte) {
	defer func() {
		if recover() != nil {
			b = nil
		}
	}()
	return unhex(s)
}

// ---------------------------------------------------------------- generation

var (
	c29Ports   = []uint16{0, 53, 80, 443, 1024, 40000, 40001}
	c29Flags   = []byte{0, 0x02, 0x12, 0x10}
	c29HostsV4 = [][]byte{{10, 0, 0, 1}, {10, 0, 0, 2}, {10, 0, 1, 1}, {192, 168, 1, 1}, {224, 0, 0, 1}}
	c29HostsV6 = [][]byte{
		{0x20, 0x01, 0x0d, 0xb8, 0, 0, 0, 0, 0, 0, 0, 0, 0, 0, 0, 1},
		{0x20, 0x01, 0x0d, 0xb8, 0, 0, 0, 0, 0, 0, 0, 0, 0, 0, 0, 2},
		{0xfe, 0x80, 0, 0, 0, 0, 0, 0, 0, 0, 0, 0, 0, 0, 0, 1},
		{0x0a, 0, 0, 1, 0, 0, 0, 0, 0, 0, 0, 0, 0, 0, 0, 0}, // shown as 10.0.0.1 by the result rendering
	}
)

// the parser's common-port rule (pkg/capture/flow.go: commonPorts), restated independently
func c29Common(port uint16, proto byte) bool {
	switch proto {
	case 6:
		return port == 53 || port == 80 || port == 443 || port == 445 || port == 8080
	case 17:
		return port == 53 || port == 443
	}
	return false
}

type c29Conv struct {
	iface  byte
	v6     bool
	a, b   []byte
	ap, bp uint16
	proto  byte
	seen   int
}

// hash is the parsed 5-tuple of a packet of the conversation travelling a->b (fwd) or b->a
func (c *c29Conv) hash(fwd bool) []byte {
	s, d, sp, dp := c.a, c.b, c.ap, c.bp
	if !fwd {
		s, d, sp, dp = c.b, c.a, c.bp, c.ap
	}
	var hs, hd uint16
	if c.proto == 6 || c.proto == 17 {
		if !c29Common(dp, c.proto) {
			hs = sp
		}
		if !c29Common(sp, c.proto) {
			hd = dp
		}
	}
	h := append([]byte{}, s...)
	h = append(h, byte(hs>>8), byte(hs))
	h = append(h, d...)
	h = append(h, byte(hd>>8), byte(hd))
	return append(h, c.proto)
}

func c29NewConv(r *Rand, nHosts int) *c29Conv {
	c := &c29Conv{v6: r.Chance(1, 3), iface: 'a'}
	if r.Chance(1, 3) {
		c.iface = 'b'
	}
	hosts := c29HostsV4
	if c.v6 {
		hosts = c29HostsV6
	}
	if nHosts > len(hosts) {
		nHosts = len(hosts)
	}
	c.a, c.b = hosts[r.Intn(nHosts)], hosts[r.Intn(nHosts)]
	icmp := byte(1)
	if c.v6 {
		icmp = 58
	}
	c.proto = Pick(r, []byte{6, 6, 6, 17, 17, icmp, 50, 47})
	c.ap, c.bp = Pick(r, c29Ports), Pick(r, c29Ports)
	if r.Chance(2, 3) { // the usual shape: ephemeral client port, service port
		c.ap, c.bp = Pick(r, []uint16{1024, 40000, 40001}), Pick(r, []uint16{53, 80, 443, 1024})
	}
	return c
}

func (c *c29Conv) next(r *Rand) string {
	fwd := r.Chance(3, 5)
	if c.seen == 0 {
		fwd = r.Chance(9, 10)
	}
	var aux byte
	switch {
	case c.proto == 6:
		switch {
		case r.Chance(1, 5):
			aux = Pick(r, c29Flags)
		case c.seen == 0 && fwd:
			aux = 0x02
		case c.seen == 1 && !fwd:
			aux = 0x12
		default:
			aux = Pick(r, []byte{0x10, 0x10, 0})
		}
	case c.proto == 1 && !c.v6:
		aux = Pick(r, []byte{8, 0, 3, 11})
		if r.Chance(2, 3) {
			aux = 8
			if !fwd {
				aux = 0
			}
		}
	case c.proto == 58 && c.v6:
		aux = Pick(r, []byte{128, 129, 1, 135})
		if r.Chance(2, 3) {
			aux = 128
			if !fwd {
				aux = 129
			}
		}
	}
	pt := byte(0)
	if !fwd {
		pt = 4
	}
	if r.Chance(1, 6) {
		pt = Pick(r, []byte{0, 1, 2, 3, 4})
	}
	c.seen++
	size := Pick(r, []uint32{40, 52, 60, 64, 576, 1500})
	if r.Chance(1, 10) {
		size = Pick(r, []uint32{0, 1, 65535, 4294967295})
	}
	fam := "4"
	if c.v6 {
		fam = "6"
	}
	return fmt.Sprintf("%c%s:%s:%d:%d:%d", c.iface, fam, hexBytes(c.hash(fwd)), pt, size, aux)
}

type c29CondGen struct {
	r     *Rand
	convs []*c29Conv
	bad   bool
}

func (g *c29CondGen) addr() []byte {
	r := g.r
	if len(g.convs) > 0 && r.Chance(4, 5) {
		c := Pick(r, g.convs)
		if r.Bool() {
			return c.a
		}
		return c.b
	}
	if r.Bool() {
		return Pick(r, c29HostsV4)
	}
	return Pick(r, c29HostsV6)
}

func (g *c29CondGen) leaf(malformed bool) string {
	r := g.r
	cmps := []string{"=", "!=", "<", ">", "<=", ">="}
	switch k := r.Intn(10); {
	case k < 3:
		cmp := Pick(r, cmps[:2])
		if malformed && r.Bool() {
			cmp, g.bad = Pick(r, cmps[2:]), true
		}
		return Pick(r, []string{"sip", "dip", "sip", "dip", "host", "src", "dst"}) + cmp + hexBytes(g.addr())
	case k < 5:
		a := append([]byte(nil), g.addr()...)
		p := Pick(r, []int{0, 8, 23, 24, 31, 32})
		if len(a) == 16 {
			p = Pick(r, []int{0, 16, 32, 64, 127, 128})
		}
		if malformed && r.Bool() {
			p, g.bad = Pick(r, []int{129, 200, 1000}), true
		}
		if r.Chance(1, 3) { // clear some host bits the way a user writes a network
			for i := (p + 7) / 8; i < len(a); i++ {
				a[i] = 0
			}
		}
		return fmt.Sprintf("%s%s%s/%d", Pick(r, []string{"snet", "dnet", "net"}), Pick(r, cmps[:2]), hexBytes(a), p)
	case k < 8:
		p := int(Pick(r, c29Ports))
		if len(g.convs) > 0 && r.Chance(2, 3) {
			c := Pick(r, g.convs)
			p = int(c.bp)
		}
		return Pick(r, []string{"dport", "dport", "port"}) + Pick(r, cmps) + strconv.Itoa(p)
	default:
		p := int(Pick(r, []byte{6, 17, 1, 58, 50, 0, 255}))
		v := strconv.Itoa(p)
		if (p == 6 || p == 17 || p == 1) && r.Bool() {
			v = "n" + v
		}
		return Pick(r, []string{"proto", "proto", "protocol", "ipproto"}) + Pick(r, cmps) + v
	}
}

func (g *c29CondGen) tree(depth int, malformed bool) []string {
	r := g.r
	if depth == 0 || r.Chance(4, 10) {
		return []string{g.leaf(malformed)}
	}
	switch r.Intn(5) {
	case 0:
		return append([]string{"!"}, g.tree(depth-1, malformed)...)
	case 1, 2:
		l := g.tree(depth-1, malformed)
		return append(append([]string{"&"}, l...), g.tree(depth-1, malformed)...)
	default:
		l := g.tree(depth-1, malformed)
		return append(append([]string{"|"}, l...), g.tree(depth-1, malformed)...)
	}
}

func c29GenAttrs(r *Rand) string {
	all := []string{"sip", "dip", "dport", "proto", "time", "iface"}
	if r.Chance(1, 6) {
		return strings.Join(all, ",")
	}
	var sel []string
	for _, a := range all {
		p := 2
		if a == "time" || a == "iface" {
			p = 1
		}
		if r.Chance(p, 5) {
			sel = append(sel, a)
		}
	}
	if len(sel) == 0 {
		sel = []string{Pick(r, all[:4])}
	}
	r.Shuffle(len(sel), func(i, j int) { sel[i], sel[j] = sel[j], sel[i] })
	return strings.Join(sel, ",")
}

func c29GenQuery(r *Rand, convs []*c29Conv, malformed bool) (string, bool) {
	g := &c29CondGen{r: r, convs: convs}
	cond := "-"
	if r.Chance(3, 4) {
		cond = strings.Join(g.tree(1+r.Intn(3), malformed), ",")
	}
	dir := "-"
	if r.Chance(1, 4) {
		dir = Pick(r, []string{"in", "out", "uni", "bi"})
	}
	return fmt.Sprintf("Q:%s:%s:%s:%s", c29GenAttrs(r), cond, Pick(r, []string{"a", "ab", "ab", "b", "ba"}), dir), g.bad
}

// c29NonTrivial: some live query covers an interface that received a packet since the last write-out,
// and a write-out follows that query
func c29NonTrivial(ops []string) bool {
	pending := map[byte]bool{}
	armed := false
	for _, op := range ops {
		switch {
		case op == "R":
			if armed {
				return true
			}
			pending = map[byte]bool{}
		case strings.HasPrefix(op, "Q:"):
			p := strings.Split(op, ":")
			if len(p) == 5 {
				for i := 0; i < len(p[3]); i++ {
					if pending[p[3][i]] {
						armed = true
					}
				}
			}
		default:
			pending[op[0]] = true
		}
	}
	return false
}

func c29GenCase(r *Rand, maxPkts int) (ops []string, class string) {
	kind := r.Intn(12)
	class = "conversations"
	nConv := 1 + r.Intn(8)
	nHosts := 2 + r.Intn(3)
	var convs []*c29Conv
	for i := 0; i < nConv; i++ {
		convs = append(convs, c29NewConv(r, nHosts))
	}
	nPkts := 1 + r.Intn(maxPkts)
	if r.Chance(1, 3) {
		nPkts = 1 + r.Intn(8)
	}
	pRot := 1 + r.Intn(4)  // out of 20 per packet
	pQ := 2 + r.Intn(5)    // out of 20 per packet
	malformed := kind == 0
	if malformed {
		class = "malformed-condition"
	}
	if kind == 1 {
		class = "idle-intervals"
	}
	if kind == 2 {
		class = "no-packets"
		nPkts = 0
	}
	query := func() {
		q, bad := c29GenQuery(r, convs, malformed)
		_ = bad
		ops = append(ops, q)
	}
	rotate := func() {
		ops = append(ops, "R")
		if kind == 1 && r.Bool() {
			if r.Bool() {
				query()
			}
			ops = append(ops, "R")
		}
	}
	if r.Chance(1, 8) {
		query() // before anything was captured or written
	}
	if r.Chance(6, 7) {
		ops = append(ops, "R") // the first write-out creates the interfaces' directories in the database
	}
	if r.Chance(1, 8) {
		query() // before anything was captured
	}
	for i := 0; i < nPkts; i++ {
		ops = append(ops, Pick(r, convs).next(r))
		if r.Chance(pQ, 20) {
			query()
			if r.Chance(1, 4) {
				query() // two live queries in a row
			}
		}
		if r.Chance(pRot, 20) {
			rotate()
			if r.Chance(1, 3) {
				query() // right after a write-out: only idle flows in memory
			}
		}
	}
	if r.Chance(3, 4) {
		query()
	}
	if r.Chance(5, 6) {
		rotate()
	}
	if r.Chance(1, 4) {
		query()
		rotate()
	}
	return ops, class
}

func c29Gen(r *Rand, tier string) []Case {
	r = NewRand(r.U64() ^ 0xc29c29c29)
	n, maxPkts := 260, 30
	if tier == "thorough" {
		n, maxPkts = 6000, 60
	}
	var cases []Case
	for i := 0; i < n; i++ {
		ops, class := c29GenCase(r, maxPkts)
		cases = append(cases, Case{Line: "C29 " + strings.Join(ops, " "), Class: class, NonTrivial: c29NonTrivial(ops)})
	}
	return cases
}

func init() {
	register(&Prop{
		ID: "C29",
		Rule: "a history on one real capture.Manager with two interfaces on scripted sources (real capture loop and parser), a real GoDB write-out handler and the real query engine with live data: " +
			"packets of 1-8 conversations (IPv4/IPv6, TCP/UDP/ICMP/ESP/GRE, both directions, common and ephemeral ports, boundary sizes) interleaved with write-outs (also consecutive ones: idle intervals) " +
			"and live queries (attribute subsets of sip,dip,dport,proto,time,iface; condition trees over the addresses, networks, ports and protocols in use incl. aliases, negation and a malformed stream; " +
			"direction filters; one or both interfaces) at arbitrary points: before the first packet, between packets, twice in a row, right after a write-out; every history runs a second time without the queries. " +
			"Non-trivial = some live query covers an interface that received a packet since the last write-out and a write-out follows that query",
		Gen: c29Gen,
		Run: c29Run,
		Parallel: 4,
		Init: func(string) error {
			// the host link lister is a package variable: replaced once for all managers of this process
			capture.VerifSetHostLinks(func(...string) (link.Links, error) {
				return link.Links{&link.Link{Name: c29Ifaces['a']}, &link.Link{Name: c29Ifaces['b']}}, nil
			})
			_, _ = logging.Init(logging.LevelError+100, logging.EncodingLogfmt, logging.WithOutput(io.Discard), logging.WithErrorOutput(io.Discard))
			d, err := os.MkdirTemp("", "verif-c29-")
			c29WorkDir = d
			return err
		},
		Done: func() { os.RemoveAll(c29WorkDir) },
	})
}
