package main

// verifharness: correspondence harness (tie C of DESIGN.md). Generates seeded cases for a
// property, runs them against the real goProbe code in-process and writes
//   <out>/cases.txt  one wire line per case (same lines are fed to the Lean driver `gpmodel`)
//   <out>/impl.txt   the implementation's canonical output per case
//   <out>/stats.json distribution of what was generated
//
// usage: verifharness <Cxx> -seed N -tier quick|thorough -out DIR [-cases FILE]

import (
	"bufio"
	"encoding/json"
	"flag"
	"fmt"
	"os"
	"path/filepath"
	"runtime"
	"sort"
	"strings"
	"sync"
)

type Case struct {
	Line       string // wire line, starting with the component id
	Class      string // coarse class for the distribution report
	NonTrivial bool   // by the property's stated rule
}

type Prop struct {
	ID   string
	Rule string                              // how cases are generated and what makes one non-trivial
	Gen  func(r *Rand, tier string) []Case    // seeded generation
	Run  func(fields []string) string         // run one case (fields after the component id) on the real code
	Init func(tier string) error              // optional set-up (temp dirs, ...)
	Done func()                               // optional tear-down
	Parallel int                              // > 1: cases are independent and may run on that many workers
}

var props = map[string]*Prop{}

// children: private sub-commands run in child processes (`verifharness __child <name> args…`),
// e.g. one write-out under strace with fault injection. The main goroutine stays locked to the
// main OS thread (see init) so that all its system calls come from one thread in program order.
var children = map[string]func(args []string) int{}

func init() { runtime.LockOSThread() }

func register(p *Prop) { props[p.ID] = p }

func safeRun(p *Prop, fields []string) (out string) {
	defer func() {
		if r := recover(); r != nil {
			out = "panic"
			if os.Getenv("VERIF_DEBUG") != "" {
				fmt.Fprintf(os.Stderr, "panic in %v: %v\n", fields, r)
			}
		}
	}()
	return p.Run(fields)
}

func main() {
	if len(os.Args) < 2 {
		fmt.Fprintln(os.Stderr, "usage: verifharness <Cxx> [flags]")
		os.Exit(2)
	}
	id := os.Args[1]
	if id == "__child" {
		if len(os.Args) < 3 || children[os.Args[2]] == nil {
			fmt.Fprintln(os.Stderr, "unknown child command")
			os.Exit(2)
		}
		os.Exit(children[os.Args[2]](os.Args[3:]))
	}
	p, ok := props[id]
	if !ok {
		fmt.Fprintln(os.Stderr, "unknown property", id)
		os.Exit(2)
	}
	fs := flag.NewFlagSet(id, flag.ExitOnError)
	seed := fs.Uint64("seed", 1, "seed")
	tier := fs.String("tier", "quick", "quick|thorough")
	out := fs.String("out", "", "output directory")
	casesFile := fs.String("cases", "", "replay the cases of this file instead of generating")
	corpus := fs.String("corpus", "", "corpus file whose cases run first")
	_ = fs.Parse(os.Args[2:])
	if *out == "" {
		fmt.Fprintln(os.Stderr, "-out required")
		os.Exit(2)
	}
	if err := os.MkdirAll(*out, 0o755); err != nil {
		panic(err)
	}
	if p.Init != nil {
		if err := p.Init(*tier); err != nil {
			fmt.Fprintln(os.Stderr, "init:", err)
			os.Exit(2)
		}
	}
	if p.Done != nil {
		defer p.Done()
	}
	var cases []Case
	readCases := func(path, class string) {
		f, err := os.Open(path)
		if err != nil {
			return
		}
		defer f.Close()
		sc := bufio.NewScanner(f)
		sc.Buffer(make([]byte, 1<<20), 1<<28)
		for sc.Scan() {
			l := strings.TrimSpace(sc.Text())
			if l == "" || strings.HasPrefix(l, "#") {
				continue
			}
			cases = append(cases, Case{Line: l, Class: class, NonTrivial: true})
		}
	}
	if *corpus != "" {
		readCases(*corpus, "corpus")
	}
	if *casesFile != "" {
		readCases(*casesFile, "replay")
	} else {
		cases = append(cases, p.Gen(NewRand(*seed), *tier)...)
	}
	cf, _ := os.Create(filepath.Join(*out, "cases.txt"))
	inf, _ := os.Create(filepath.Join(*out, "impl.txt"))
	cw, iw := bufio.NewWriter(cf), bufio.NewWriter(inf)
	classes := map[string]int{}
	outKinds := map[string]int{}
	distinct := map[string]bool{}
	var samples []string
	results := make([]string, len(cases))
	for _, c := range cases {
		fields := strings.Fields(c.Line)
		if len(fields) == 0 || fields[0] != id {
			fmt.Fprintln(os.Stderr, "bad case line:", c.Line)
			os.Exit(2)
		}
	}
	if p.Parallel > 1 {
		var wg sync.WaitGroup
		idx := make(chan int)
		for w := 0; w < p.Parallel; w++ {
			wg.Add(1)
			go func() {
				defer wg.Done()
				for i := range idx {
					results[i] = safeRun(p, strings.Fields(cases[i].Line)[1:])
				}
			}()
		}
		for i := range cases {
			idx <- i
		}
		close(idx)
		wg.Wait()
	} else {
		for i, c := range cases {
			results[i] = safeRun(p, strings.Fields(c.Line)[1:])
		}
	}
	for i, c := range cases {
		res := results[i]
		res = strings.ReplaceAll(res, "\n", "\\n")
		fmt.Fprintln(cw, c.Line)
		fmt.Fprintln(iw, res)
		classes[c.Class]++
		k := res
		if j := strings.IndexAny(k, " :,"); j > 0 && (strings.HasPrefix(k, "err") || strings.HasPrefix(k, "panic")) {
			k = k[:j]
		} else if !strings.HasPrefix(k, "err") && !strings.HasPrefix(k, "panic") {
			k = "value"
		}
		outKinds[k]++
		if c.NonTrivial {
			distinct[c.Line] = true
		}
		if len(samples) < 5 && (i%(len(cases)/5+1) == 0) {
			s := c.Line + " => " + res
			if len(s) > 400 {
				s = s[:400] + "…"
			}
			samples = append(samples, s)
		}
	}
	cw.Flush()
	iw.Flush()
	cf.Close()
	inf.Close()
	var cl []string
	for k := range classes {
		cl = append(cl, k)
	}
	sort.Strings(cl)
	st := map[string]any{
		"property":            id,
		"seed":                *seed,
		"tier":                *tier,
		"evaluations":         len(cases),
		"distinct_nontrivial": len(distinct),
		"rule":                p.Rule,
		"samples":             samples,
		"classes":             classes,
		"impl_output_kinds":   outKinds,
	}
	js, _ := json.MarshalIndent(st, "", " ")
	_ = os.WriteFile(filepath.Join(*out, "stats.json"), append(js, '\n'), 0o644)
}
