//go:build verif_all || verif_c10

package main

import (
	"errors"
	"fmt"
	"strings"
	"unicode/utf8"

	"github.com/els0r/goProbe/v4/pkg/goDB/conditions"
	"github.com/els0r/goProbe/v4/pkg/goDB/conditions/node"
	"github.com/els0r/goProbe/v4/pkg/query"
)

// C10 — condition text: SanitizeUserInput / Tokenize / parseConditional (through the verif hook
// node.VerifParse) and the canonical string stored by Args.Prepare.
//
// wire:  C10 raw <hex of the condition text>
//        C10 lex <items>     items "<ws>/<hex text>" separated by ','; <ws> over s,t,n,r,f,v (blank, tab,
//                            newline, carriage return, form feed, vertical tab; "-" = none); the last
//                            item carries the trailing white space and the text "-". The condition
//                            text is the concatenation.
//
// output (one line, fields separated by a blank):
//   det=<n>      number of distinct results of repeated SanitizeUserInput / Prepare calls (1 = deterministic)
//   san=<esc>    SanitizeUserInput(text)
//   tok=ok|toolong   Tokenize(san) succeeded / stopped with bufio.ErrTooLong
//   ast=<tree>|empty|err:<kind>@<pos>|err:tokenize   parseConditional(Tokenize(san)); tree in pre-order:
//                A / O / N for and / or / not, C:<attr>:<cmp>:<value>
//   canon=<esc>  Statement.Condition after Args.Prepare
//   re=<tree|…>  parseConditional(Tokenize(canon))
//   canon2=<esc> Statement.Condition after Args.Prepare on canon
//   pc=ok|accepted-unparsable   Prepare reported no condition error although tokenizer or parser reject
//   prep=-|acc|rej   only when a tree was parsed and (re != ast or canon2 != canon): did Prepare accept the
//                condition (then its values are valid too)?

func c10Prepare(cond string) (canon string, accepted bool) {
	a := &query.Args{Query: "sip", Ifaces: "eth0", Condition: cond, Format: "json", NumResults: 10, MaxMemPct: 50, First: "-1d"}
	st, err := a.Prepare()
	accepted = true
	if err != nil {
		var de *query.DetailError
		if errors.As(err, &de) {
			for _, e := range de.Errors {
				if e != nil && e.Location == "body.condition" {
					accepted = false
				}
			}
		} else {
			accepted = false
		}
	}
	return st.Condition, accepted
}

var c10ErrKinds = map[string]string{
	"unexpected end of input":           "eoi",
	"expected \")\", but didn't get it": "expected",
	"expected attribute":                "attr",
	"expected comparison operator":      "cmp",
	"input unexpectedly continues":      "trailing",
}

func c10Ast(text string) (field string, tokOK bool) {
	toks, terr := conditions.Tokenize(text)
	if terr != nil {
		return "err:tokenize", false
	}
	var items []string
	empty, desc, pos, err := node.VerifParse(toks, func(kind, attr, cmp, val string) {
		if kind == "C" {
			items = append(items, "C:"+esc(attr)+":"+esc(cmp)+":"+esc(val))
		} else {
			items = append(items, kind)
		}
	})
	if empty {
		return "empty", true
	}
	if err != nil {
		k, ok := c10ErrKinds[desc]
		if !ok {
			k = "other"
		}
		return fmt.Sprintf("err:%s@%d", k, pos), true
	}
	return strings.Join(items, ","), true
}

func c10IsTree(f string) bool {
	return !(strings.HasPrefix(f, "err") || f == "empty")
}

func c10Observe(cond string) string {
	k := 8
	if len(cond) > 20000 {
		k = 2
	}
	distinctSan, distinctCanon := map[string]bool{}, map[string]bool{}
	var san, canon string
	var accepted bool
	for i := 0; i < k; i++ {
		s := conditions.SanitizeUserInput(cond)
		c, acc := c10Prepare(cond)
		if i == 0 {
			san, canon, accepted = s, c, acc
		}
		distinctSan[s] = true
		distinctCanon[fmt.Sprint(acc)+c] = true
	}
	det := len(distinctSan)
	if len(distinctCanon) > det {
		det = len(distinctCanon)
	}
	ast, tokOK := c10Ast(san)
	tok := "ok"
	if !tokOK {
		tok = "toolong"
	}
	pc := "ok"
	if strings.HasPrefix(ast, "err") && accepted {
		pc = "accepted-unparsable"
	}
	re, _ := c10Ast(canon)
	canon2, _ := c10Prepare(canon)
	prep := "-"
	if c10IsTree(ast) && (re != ast || canon2 != canon) {
		prep = "rej"
		if accepted {
			prep = "acc"
		}
	}
	return fmt.Sprintf("det=%d san=%s tok=%s ast=%s canon=%s re=%s canon2=%s pc=%s prep=%s",
		det, esc(san), tok, ast, esc(canon), re, esc(canon2), pc, prep)
}

var c10WsCodes = map[byte]byte{'s': ' ', 't': '\t', 'n': '\n', 'r': '\r', 'f': '\f', 'v': '\v'}

func c10Flatten(items string) string {
	var b strings.Builder
	for _, it := range splitList(items) {
		p := strings.SplitN(it, "/", 2)
		if len(p) != 2 {
			panic("bad lex item " + it)
		}
		if p[0] != "-" {
			for i := 0; i < len(p[0]); i++ {
				b.WriteByte(c10WsCodes[p[0][i]])
			}
		}
		b.Write(unhex(p[1]))
	}
	return b.String()
}

func c10Run(f []string) string {
	switch f[0] {
	case "raw":
		return c10Observe(string(unhex(f[1])))
	case "lex":
		return c10Observe(c10Flatten(f[1]))
	}
	return "bad-op"
}

// ---------------------------------------------------------------- generation

type c10Lex struct{ ws, text string }

func c10EncLex(ls []c10Lex, trail string) string {
	code := func(ws string) string {
		if ws == "" {
			return "-"
		}
		var b strings.Builder
		for i := 0; i < len(ws); i++ {
			for k, v := range c10WsCodes {
				if v == ws[i] {
					b.WriteByte(k)
				}
			}
		}
		return b.String()
	}
	var items []string
	for _, l := range ls {
		items = append(items, code(l.ws)+"/"+hexBytes([]byte(l.text)))
	}
	items = append(items, code(trail)+"/-")
	return strings.Join(items, ",")
}

type c10Node struct {
	kind           byte // 'C', 'N', 'A', 'O'
	l, r           *c10Node
	attr, cmp, val string
}

var c10Attrs = []string{"dip", "sip", "dnet", "snet", "dport", "proto", "dir", "dst", "src", "host", "net", "port", "protocol", "ipproto", "direction"}
var c10Cmps = []string{"=", "!=", "<=", ">=", "<", ">"}

var c10Spellings = map[string][]string{
	"=":  {"=", "eq", "-eq", "equals", "==", "==="},
	"!=": {"!=", "neq", "-neq", "ne", "-ne"},
	"<=": {"<=", "le", "-le", "leq", "-leq"},
	">=": {">=", "ge", "-ge", "geq", "-geq"},
	"<":  {"<", "less", "l", "-l", "lt", "-lt"},
	">":  {">", "greater", "g", "-g", "gt", "-gt"},
	"!":  {"!", "not"},
	"&":  {"&", "and", "&&", "*"},
	"|":  {"|", "or", "||", "+"},
	"(":  {"(", "[", "{"},
	")":  {")", "]", "}"},
}

func c10IsWordForm(s string) bool {
	for i := 0; i < len(s); i++ {
		c := s[i]
		if !(c >= 'a' && c <= 'z' || c >= 'A' && c <= 'Z' || c == '-') {
			return false
		}
	}
	return len(s) > 0
}

func c10Value(r *Rand, attr string) string {
	switch attr {
	case "dip", "sip", "dst", "src", "host":
		return Pick(r, []string{"192.168.1.34", "10.0.0.1", "::1", "2001:db8::1", "fe80::abcd:ce23", "172.16.22.15"})
	case "dnet", "snet", "net":
		return Pick(r, []string{"10.0.0.0/8", "192.168.1.0/25", "2001:db8::/32", "172.16.0.0/12"})
	case "dport", "port":
		return Pick(r, []string{"0", "22", "80", "443", "8080", "65535"})
	case "proto", "protocol", "ipproto":
		return Pick(r, []string{"tcp", "TCP", "udp", "6", "17", "icmp", "esp", "UDP"})
	default:
		return Pick(r, []string{"in", "out", "uni", "bi", "inbound", "outbound"})
	}
}

func c10RandAst(r *Rand, depth int) *c10Node {
	if depth <= 0 || r.Chance(2, 5) {
		a := Pick(r, c10Attrs)
		v := c10Value(r, a)
		if r.Chance(1, 12) { // arbitrary plain word
			v = Pick(r, []string{"x", "a.b-c_d", "Foo", "nothing", "android", "orc", "equal", "$1", "a/b:c", "-", "le-ge", "l2tp", "g0", "1e9"})
		}
		return &c10Node{kind: 'C', attr: a, cmp: Pick(r, c10Cmps), val: v}
	}
	switch r.Intn(5) {
	case 0:
		return &c10Node{kind: 'N', l: c10RandAst(r, depth-1)}
	case 1, 2:
		return &c10Node{kind: 'A', l: c10RandAst(r, depth-1), r: c10RandAst(r, depth-1)}
	default:
		return &c10Node{kind: 'O', l: c10RandAst(r, depth-1), r: c10RandAst(r, depth-1)}
	}
}

func (n *c10Node) prec() int {
	switch n.kind {
	case 'O':
		return 0
	case 'A':
		return 1
	case 'N':
		return 2
	}
	return 3
}

func (n *c10Node) leaves() int {
	if n.kind == 'C' {
		return 1
	}
	c := n.l.leaves()
	if n.r != nil {
		c += n.r.leaves()
	}
	return c
}

// c10Style: how operators are spelled and how much white space is used
type c10Style struct {
	altProb    int  // out of 8: alternative spelling instead of the base symbol
	wordOnly   bool // among alternatives prefer the word forms
	redundant  int  // out of 16: redundant parentheses
	upper      bool // upper-case letters in words and word forms
	wsKinds    string
	emptyWs    int // out of 4: no white space where it is optional
	mixedBrace bool
}

func c10Ws(r *Rand, st *c10Style, need bool) string {
	if !need && r.Chance(st.emptyWs, 4) {
		return ""
	}
	n := 1
	if r.Chance(1, 4) {
		n = 1 + r.Intn(3)
	}
	b := make([]byte, n)
	for i := range b {
		b[i] = st.wsKinds[r.Intn(len(st.wsKinds))]
	}
	return string(b)
}

// c10Emit appends the base tokens of n written at precedence level lvl
func c10Emit(r *Rand, st *c10Style, n *c10Node, lvl int, out *[]string) {
	open := n.prec() < lvl || r.Chance(st.redundant, 16)
	if open {
		*out = append(*out, "(")
		lvl = 0
	}
	switch n.kind {
	case 'C':
		*out = append(*out, "w:"+n.attr, n.cmp, "w:"+n.val)
	case 'N':
		*out = append(*out, "!")
		c10Emit(r, st, n.l, 3, out)
	case 'A':
		c10Emit(r, st, n.l, 2, out)
		*out = append(*out, "&")
		c10Emit(r, st, n.r, 1, out)
	case 'O':
		c10Emit(r, st, n.l, 1, out)
		*out = append(*out, "|")
		c10Emit(r, st, n.r, 0, out)
	}
	if open {
		*out = append(*out, ")")
	}
}

func c10Upper(r *Rand, s string) string {
	b := []byte(s)
	for i := range b {
		if b[i] >= 'a' && b[i] <= 'z' && r.Bool() {
			b[i] -= 32
		}
	}
	return string(b)
}

// c10Spell turns base tokens into lexemes inside the documented domain
func c10Spell(r *Rand, st *c10Style, toks []string) ([]c10Lex, string, int) {
	var ls []c10Lex
	needWs := false
	alts := 0
	var braces []string
	for i, t := range toks {
		text := t
		word := false
		if strings.HasPrefix(t, "w:") {
			text = t[2:]
			if st.upper {
				text = c10Upper(r, text)
			}
			word = true
		} else {
			sp := c10Spellings[t]
			if r.Chance(st.altProb, 8) {
				text = sp[1+r.Intn(len(sp)-1)]
				if st.wordOnly {
					for k := 0; k < 4 && !c10IsWordForm(text); k++ {
						text = sp[1+r.Intn(len(sp)-1)]
					}
				}
			}
			if t == "(" && !st.mixedBrace {
				braces = append(braces, text)
			}
			if t == ")" && !st.mixedBrace && len(braces) > 0 {
				o := braces[len(braces)-1]
				braces = braces[:len(braces)-1]
				text = map[string]string{"(": ")", "[": "]", "{": "}"}[o]
			}
			if text != t {
				alts++
			}
			if c10IsWordForm(text) {
				word = true
				if st.upper {
					text = c10Upper(r, text)
				}
			}
		}
		kw := !strings.HasPrefix(t, "w:") && c10IsWordForm(text)
		prevWord := len(ls) > 0 && (strings.HasPrefix(toks[i-1], "w:") || c10IsWordForm(ls[len(ls)-1].text))
		need := needWs || (kw && !(i == 0 && t == "!")) || (word && prevWord)
		ws := c10Ws(r, st, need)
		if i == 0 && !need && r.Chance(1, 2) {
			ws = ""
		}
		ls = append(ls, c10Lex{ws, text})
		needWs = kw
	}
	trail := ""
	if r.Chance(1, 4) {
		trail = c10Ws(r, st, true)
	}
	return ls, trail, alts
}

func c10RandStyle(r *Rand) *c10Style {
	st := &c10Style{altProb: r.Intn(9), wordOnly: r.Chance(1, 3), redundant: r.Intn(4), upper: r.Chance(1, 5),
		wsKinds: " ", emptyWs: r.Intn(4), mixedBrace: r.Chance(1, 6)}
	switch r.Intn(4) {
	case 0:
		st.wsKinds = " \t\n\r"
	case 1:
		st.wsKinds = "  \t"
	}
	return st
}

func c10Flat(ls []c10Lex, trail string) string {
	var b strings.Builder
	for _, l := range ls {
		b.WriteString(l.ws)
		b.WriteString(l.text)
	}
	b.WriteString(trail)
	return b.String()
}

var c10Alphabet = []string{"dport", "sip", "dip", "proto", "host", "net", "dir", "=", "!=", "<", ">", "<=", ">=", "==", "===", "!", "&", "|", "&&", "||",
	"(", ")", "[", "]", "{", "}", "*", "+", " ", " ", "  ", "\t", "\n", "\r", "\f", "\v", "and", "or", "not", "eq", "-eq", "ne", "neq", "le", "ge", "l", "g",
	"lt", "gt", "less", "greater", "equals", "80", "tcp", "1.2.3.4", "::1", "10.0.0.0/8", "AND", "Not", "$", "${2}", "\\", "-", "x", "é", "K", "İ", "\x00", "\xff"}

// c10Mutate applies a few byte-level edits
func c10Mutate(r *Rand, s string) string {
	b := []byte(s)
	for k := 1 + r.Intn(3); k > 0; k-- {
		switch r.Intn(5) {
		case 0: // delete
			if len(b) > 0 {
				i := r.Intn(len(b))
				b = append(b[:i], b[i+1:]...)
			}
		case 1: // insert a fragment
			i := r.Intn(len(b) + 1)
			f := Pick(r, c10Alphabet)
			b = append(b[:i], append([]byte(f), b[i:]...)...)
		case 2: // replace by a random byte
			if len(b) > 0 {
				b[r.Intn(len(b))] = byte(r.Intn(256))
			}
		case 3: // duplicate a span
			if len(b) > 1 {
				i := r.Intn(len(b) - 1)
				j := i + 1 + r.Intn(min(len(b)-i-1, 6)+1)
				if j > len(b) {
					j = len(b)
				}
				b = append(b[:j], append(append([]byte{}, b[i:j]...), b[j:]...)...)
			}
		default: // swap two bytes
			if len(b) > 1 {
				i, j := r.Intn(len(b)), r.Intn(len(b))
				b[i], b[j] = b[j], b[i]
			}
		}
	}
	return string(b)
}

func c10Gen(r *Rand, tier string) []Case {
	thorough := tier == "thorough"
	nLex, nMal, nFuzz, nSoup, nMut := 1500, 500, 400, 600, 900
	deep := []int{1000, 10000}
	chain := []int{511, 512, 513, 3000}
	if thorough {
		nLex, nMal, nFuzz, nSoup, nMut = 150000, 40000, 30000, 50000, 80000
		deep = []int{1000, 10000, 50000, 100000}
		chain = []int{511, 512, 513, 3000, 30000, 100000}
	}
	var cs []Case
	raw := func(s, class string, nt bool) {
		cs = append(cs, Case{Line: "C10 raw " + hexBytes([]byte(s)), Class: class, NonTrivial: nt})
	}
	// 1. grammar-generated renderings inside the documented domain
	for i := 0; i < nLex; i++ {
		ast := c10RandAst(r, 1+r.Intn(5))
		st := c10RandStyle(r)
		var toks []string
		c10Emit(r, st, ast, 0, &toks)
		ls, trail, alts := c10Spell(r, st, toks)
		cls := "lex:base"
		if alts > 0 {
			cls = "lex:alt"
		}
		if st.upper {
			cls += "+upper"
		}
		cs = append(cs, Case{Line: "C10 lex " + c10EncLex(ls, trail), Class: cls, NonTrivial: alts > 0 || ast.leaves() > 1})
	}
	// 2. malformed stream: renderings with the white space rules broken, adjacent operators,
	//    word forms glued to their neighbours, "not" after a brace, form feed as white space
	for i := 0; i < nMal; i++ {
		ast := c10RandAst(r, 1+r.Intn(4))
		st := c10RandStyle(r)
		var toks []string
		c10Emit(r, st, ast, 0, &toks)
		ls, trail, _ := c10Spell(r, st, toks)
		for k := 1 + r.Intn(2); k > 0 && len(ls) > 0; k-- {
			j := r.Intn(len(ls))
			switch r.Intn(6) {
			case 0:
				ls[j].ws = ""
			case 1:
				ls[j].ws = Pick(r, []string{"\f", "\v", " \f", "\f "})
			case 2:
				ls = append(ls[:j], ls[j+1:]...)
			case 3:
				ls = append(ls[:j+1], ls[j:]...)
			case 4:
				ls[j].text = Pick(r, c10Alphabet)
				if strings.TrimSpace(ls[j].text) == "" || !utf8.ValidString(ls[j].text) {
					ls[j].text = "and"
				}
			default:
				ls[j].ws = ""
				if j+1 < len(ls) {
					ls[j+1].ws = ""
				}
			}
		}
		cs = append(cs, Case{Line: "C10 lex " + c10EncLex(ls, trail), Class: "lex:malformed", NonTrivial: true})
	}
	// 3. random bytes
	for i := 0; i < nFuzz; i++ {
		n := r.Intn(40)
		var s string
		switch r.Intn(3) {
		case 0:
			s = string(r.Bytes(n))
		case 1: // printable ASCII
			b := make([]byte, n)
			for j := range b {
				b[j] = byte(32 + r.Intn(95))
			}
			s = string(b)
		default: // bytes that matter to the grammar
			const al = " \t\n\r\f!=<>|&()[]{}*+-aAdDnNoOrRtTeEqQlLgG$\\01."
			b := make([]byte, n)
			for j := range b {
				b[j] = al[r.Intn(len(al))]
			}
			s = string(b)
		}
		raw(s, "raw:bytes", false)
	}
	// 4. token soup
	for i := 0; i < nSoup; i++ {
		var b strings.Builder
		for k := r.Intn(14); k > 0; k-- {
			b.WriteString(Pick(r, c10Alphabet))
			if r.Chance(1, 2) {
				b.WriteByte(' ')
			}
		}
		raw(b.String(), "raw:soup", false)
	}
	// 5. mutated valid conditions
	for i := 0; i < nMut; i++ {
		ast := c10RandAst(r, 1+r.Intn(4))
		st := c10RandStyle(r)
		var toks []string
		c10Emit(r, st, ast, 0, &toks)
		ls, trail, _ := c10Spell(r, st, toks)
		raw(c10Mutate(r, c10Flat(ls, trail)), "raw:mutated", true)
	}
	// 5b. hostile values for every attribute (the stages after the parser must reject, not crash)
	hostile := []string{"1.2.3.4/-8", "1.2.3.4/-1", "1.2.3.4/-16", "::ffff:1.2.3.4/120", "::ffff:1.2.3.4/24", "::ffff:1.2.3.4", "1.2.3.4/", "/8", "/", "1.2.3.4/33", "::1/129",
		"::1/128", "1.2.3.4/0", "::/0", "1.2.3.4/8/9", "::1%eth0/64", "fe80::1%lo", "1.2.3.4/99999999999999999999", "1.2.3.4/0x10", "1.2.3.4/+8", "1.2.3/8", "1.2.3.4.5", "256.1.1.1",
		"01.2.3.4", "1::2::3", ":::", "::", "2001:db8::1.2.3.4", "2001:db8::1.2.3.4/100", "-1", "+80", "65536", "65535", "0x50", "080", "99999999999999999999", "1e3", "256", "255", "tcp", "TCP",
		"tp++", "a/n", "ax.25", "hopopt", "in", "out", "uni", "bi", "inbound", "outbound", "unidirectional", "bidirectional", "both", "", ".", "-", "%", "%s", "%!d(string=x)", "\x00", "é", "１２"}
	for i := 0; i < nMal; i++ {
		leafOf := func() string {
			v := Pick(r, hostile)
			if r.Chance(1, 4) {
				v = c10Mutate(r, v)
				v = strings.Map(func(c rune) rune {
					if strings.ContainsRune(" \t\n\r!=<>|&()[]{}*+", c) {
						return '7'
					}
					return c
				}, v)
			}
			if v == "" {
				v = "0"
			}
			return Pick(r, c10Attrs) + " " + Pick(r, c10Cmps) + " " + v
		}
		s := leafOf()
		for k := r.Intn(3); k > 0; k-- {
			switch r.Intn(4) {
			case 0:
				s = "!(" + s + ")"
			case 1:
				s = s + " & " + leafOf()
			case 2:
				s = "(" + leafOf() + " | " + s + ")"
			default:
				s = leafOf() + " & " + s
			}
		}
		raw(s, "raw:values", true)
	}
	// 6. deep nesting, long chains, long tokens (scanner limit 64 KiB)
	leaf := "dport = 80"
	for _, n := range deep {
		raw(strings.Repeat("(", n)+leaf+strings.Repeat(")", n), "raw:deep-paren", true)
		raw(strings.Repeat("{", n)+leaf+strings.Repeat("]", n), "raw:deep-brace", true)
		raw(strings.Repeat("(", n)+leaf+strings.Repeat(")", n-1), "raw:deep-unbalanced", true)
		raw(strings.Repeat("(", n), "raw:deep-open", true)
		raw(strings.Repeat("!(", n)+leaf+strings.Repeat(")", n), "raw:deep-not", true)
		raw(strings.Repeat("not (", n)+leaf+strings.Repeat(")", n), "raw:deep-not-word", true)
		raw(strings.Repeat("(dport=1&", n)+leaf+strings.Repeat(")", n), "raw:deep-right", true)
		raw(strings.Repeat("(", n)+leaf+strings.Repeat("|dport=1)", n), "raw:deep-left", true)
	}
	for _, n := range chain {
		raw(leaf+strings.Repeat(" & "+leaf, n), "raw:chain-and", true)
		raw(leaf+strings.Repeat(" or "+leaf, n), "raw:chain-or-word", true)
		raw(leaf+strings.Repeat(" and not "+leaf, n), "raw:chain-and-not", true)
	}
	for _, n := range []int{4095, 4096, 4097, 65534, 65535, 65536, 65537, 70000, 131072} {
		w := strings.Repeat("a", n)
		raw("dport = "+w, "raw:long-word", true)
		raw(w+" = 80", "raw:long-word", true)
		raw("dport = 80 & sip = "+w+" | dport = 1", "raw:long-word", true)
		raw("dport = 80 & sip = "+w+")", "raw:long-word", true)
		if n >= 65534 {
			raw(strings.Repeat("A", n-1)+"é", "raw:long-word", true)
		}
	}
	// (white-space runs are kept short: the model's backtracking matcher is quadratic in their length)
	for _, n := range []int{700, 2500} {
		raw("dport"+strings.Repeat(" ", n)+"="+strings.Repeat("\t", n)+"80"+strings.Repeat("\n", n)+"and"+strings.Repeat("\r", n)+"not"+strings.Repeat(" \t", n/2)+"dport = 1", "raw:long-ws", true)
	}
	for _, n := range []int{65536, 100000} {
		raw("dport "+strings.Repeat("=", n)+" 80", "raw:long-ops", true)
		raw("dport = 80"+strings.Repeat(" and", n/4)+" x", "raw:long-keywords", true)
	}
	return cs
}

func init() {
	register(&Prop{
		ID: "C10",
		Rule: "condition texts of six kinds: (lex) random syntax trees (depth <= 5, every attribute, comparator, value kind) written as lexeme lists with every documented operator spelling " +
			"(word forms, doubled symbols, * +, three brace styles), redundant parentheses, upper case, and white space from {blank,tab,newline,CR} in every optional position; " +
			"(lex:malformed) the same with the white-space rules broken, lexemes dropped / doubled / replaced, form feed and vertical tab; (raw:bytes) random bytes, printable ASCII and a grammar alphabet; " +
			"(raw:soup) random token sequences incl. $, ${2}, non-ASCII and invalid UTF-8; (raw:mutated) valid renderings with 1-3 byte edits; (raw:values) small trees whose values are hostile for the stages after the parser (negative / huge / empty netmasks, mixed IPv4/IPv6 notation, zones, signs, overflow, format verbs); (raw:deep-*, chain-*, long-*) nesting up to 10^4 (quick) / 10^5 (thorough) " +
			"parentheses, chains around the 512 depth limit of the later stages, words of 4095..131072 bytes around the 64 KiB scanner limit. Every text goes 8 times (2 for texts > 20 kB) through " +
			"SanitizeUserInput and Args.Prepare (map-order nondeterminism would show as det>1), once through Tokenize + parseConditional (hook), and the canonical string goes through both again. " +
			"Non-trivial: lex cases with an alternative spelling or more than one condition, all malformed / mutated / deep / long cases. Distinct = distinct case lines.",
		Gen: c10Gen,
		Run: c10Run,
	})
}
