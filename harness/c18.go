//go:build verif_all || verif_c18

package main

import (
	"encoding/binary"
	"fmt"
	"strconv"
	"strings"

	"github.com/els0r/goProbe/v4/pkg/types"
	"github.com/els0r/goProbe/v4/pkg/types/hashmap"
)

// C18 — the flow hash map as an additive map. A case is a sequence of operation tokens on up to
// eight maps (format: lean/GoProbeModel/Spec/C18.lean). The real map is created through the hook
// with the seed written in the case, so that the case can carry the real hash value of every key
// (the Lean bucket model is parametric in the hash function and is driven with these values).
// After every Set / SetOrUpdate the caller's key buffer is overwritten.

const c18Slots = 8

func c18Fnv(s string) uint64 {
	h := uint64(14695981039346656037)
	for i := 0; i < len(s); i++ {
		h = (h ^ uint64(s[i])) * 1099511628211
	}
	return h
}

func c18Mix(z uint64) uint64 {
	z = (z ^ (z >> 30)) * 0xBF58476D1CE4E5B9
	z = (z ^ (z >> 27)) * 0x94D049BB133111EB
	return z ^ (z >> 31)
}

func c18ValStr(v types.Counters) string {
	return strconv.FormatUint(v.BytesRcvd, 10) + "," + strconv.FormatUint(v.BytesSent, 10) + "," +
		strconv.FormatUint(v.PacketsRcvd, 10) + "," + strconv.FormatUint(v.PacketsSent, 10)
}

func c18ParseVal(s string) (types.Counters, bool) {
	p := strings.Split(s, ",")
	if len(p) != 4 {
		return types.Counters{}, false
	}
	var x [4]uint64
	for i := range p {
		v, err := strconv.ParseUint(p[i], 10, 64)
		if err != nil {
			return types.Counters{}, false
		}
		x[i] = v
	}
	return types.Counters{BytesRcvd: x[0], BytesSent: x[1], PacketsRcvd: x[2], PacketsSent: x[3]}, true
}

func c18Scribble(b []byte) {
	for i := range b {
		b[i] = ^b[i] ^ byte(0x5a+i)
	}
}

func c18Run(f []string) string {
	var maps [c18Slots]*hashmap.Map
	var out []string
	slot := func(s string) (*hashmap.Map, int, bool) {
		n, err := strconv.Atoi(s)
		if err != nil || n < 0 || n >= c18Slots {
			return nil, 0, false
		}
		return maps[n], n, true
	}
	for _, tok := range f {
		if len(tok) < 2 {
			return "bad-case"
		}
		p := strings.Split(tok[1:], ":")
		switch tok[0] {
		case 'N':
			if len(p) != 3 {
				return "bad-case"
			}
			_, n, ok := slot(p[0])
			hint, err1 := strconv.Atoi(p[1])
			seed, err2 := strconv.ParseUint(p[2], 16, 64)
			if !ok || err1 != nil || err2 != nil || seed == 0 {
				return "bad-case"
			}
			maps[n] = hashmap.VerifNewSeeded(hint, seed)
		case 'S', 'U':
			if len(p) != 4 {
				return "bad-case"
			}
			m, _, ok := slot(p[0])
			hv, err := strconv.ParseUint(p[2], 16, 64)
			v, okv := c18ParseVal(p[3])
			if !ok || m == nil || err != nil || !okv {
				return "bad-case"
			}
			key := unhex(p[1])
			if m.VerifHash(key) != hv {
				return "err:hash-mismatch"
			}
			if tok[0] == 'S' {
				m.Set(key, v)
			} else {
				m.SetOrUpdate(key, v.BytesRcvd, v.BytesSent, v.PacketsRcvd, v.PacketsSent)
			}
			c18Scribble(key) // the caller re-uses its buffer
		case 'G':
			if len(p) != 3 {
				return "bad-case"
			}
			m, _, ok := slot(p[0])
			hv, err := strconv.ParseUint(p[2], 16, 64)
			if !ok || m == nil || err != nil {
				return "bad-case"
			}
			key := unhex(p[1])
			if m.VerifHash(key) != hv {
				return "err:hash-mismatch"
			}
			if v, found := m.Get(key); found {
				out = append(out, c18ValStr(v))
			} else {
				out = append(out, "-")
			}
		case 'M':
			if len(p) != 3 {
				return "bad-case"
			}
			dst, dn, ok1 := slot(p[0])
			src, sn, ok2 := slot(p[1])
			if !ok1 || !ok2 || dst == nil || src == nil || dn == sn {
				return "bad-case"
			}
			for _, kv := range splitList(p[2]) {
				e := strings.Split(kv, "=")
				if len(e) != 2 {
					return "bad-case"
				}
				hv, err := strconv.ParseUint(e[1], 16, 64)
				if err != nil {
					return "bad-case"
				}
				if dst.VerifHash(unhex(e[0])) != hv {
					return "err:hash-mismatch"
				}
			}
			dst.Merge(src)
		case 'L':
			m, _, ok := slot(p[0])
			if !ok || m == nil {
				return "bad-case"
			}
			out = append(out, strconv.Itoa(m.Len()))
		case 'I':
			m, _, ok := slot(p[0])
			if !ok || m == nil {
				return "bad-case"
			}
			var b strings.Builder
			for it := m.Iter(); it.Next(); {
				if b.Len() > 0 {
					b.WriteByte(';')
				}
				b.WriteString(hexBytes(it.Key()))
				b.WriteByte('=')
				b.WriteString(c18ValStr(it.Val()))
			}
			if b.Len() == 0 {
				out = append(out, "-")
			} else {
				out = append(out, b.String())
			}
		case 'D':
			m, _, ok := slot(p[0])
			if !ok || m == nil {
				return "bad-case"
			}
			var n, sum, seq uint64
			for it := m.Iter(); it.Next(); {
				e := c18Mix(c18Fnv(hexBytes(it.Key()) + "=" + c18ValStr(it.Val())))
				n++
				sum += e
				seq = seq*0x100000001B3 + e
			}
			out = append(out, strconv.FormatUint(n, 10)+"/"+strconv.FormatUint(sum, 16)+"/"+strconv.FormatUint(seq, 16))
		case 'P':
			m, _, ok := slot(p[0])
			if !ok || m == nil {
				return "bad-case"
			}
			count, growing, same, nb, nold, nev, novf := m.VerifProbe()
			out = append(out, fmt.Sprintf("%d,%s,%s,%d,%d,%d,%d", count, b2s(growing), b2s(same), nb, nold, nev, novf))
		default:
			return "bad-case"
		}
	}
	return strings.Join(out, " ")
}

// ---------------------------------------------------------------- generation

type c18Gen struct {
	r     *Rand
	b     strings.Builder
	seeds [c18Slots]uint64
	probe [c18Slots]*hashmap.Map        // throw-away maps with the same seeds: hash oracle only
	keys  [c18Slots]map[string]struct{} // shadow key sets (for the hash lists of Merge)
	order [c18Slots][]string
	maxN  int
	upd   int
	merge int
}

func newC18Gen(r *Rand) *c18Gen {
	g := &c18Gen{r: r}
	g.b.WriteString("C18")
	return g
}

func (g *c18Gen) newMap(s, hint int) {
	seed := g.r.U64() | 1
	g.seeds[s] = seed
	g.probe[s] = hashmap.VerifNewSeeded(0, seed)
	g.keys[s] = map[string]struct{}{}
	g.order[s] = nil
	fmt.Fprintf(&g.b, " N%d:%d:%x", s, hint, seed)
}

func (g *c18Gen) hash(s int, key []byte) uint64 { return g.probe[s].VerifHash(key) }

func (g *c18Gen) note(s int, hk string) {
	if _, ok := g.keys[s][hk]; ok {
		g.upd++
		return
	}
	g.keys[s][hk] = struct{}{}
	g.order[s] = append(g.order[s], hk)
	if len(g.keys[s]) > g.maxN {
		g.maxN = len(g.keys[s])
	}
}

func (g *c18Gen) val() string {
	r := g.r
	switch r.Intn(8) {
	case 0:
		return "0,0,0,0"
	case 1:
		return fmt.Sprintf("%d,%d,%d,%d", r.U64()>>24, r.U64()>>24, r.U64()>>40, r.U64()>>40)
	}
	return fmt.Sprintf("%d,%d,%d,%d", r.Intn(1500), r.Intn(1500), r.Intn(10), r.Intn(10))
}

func (g *c18Gen) put(op byte, s int, key []byte) {
	hk := hexBytes(key)
	fmt.Fprintf(&g.b, " %c%d:%s:%x:%s", op, s, hk, g.hash(s, key), g.val())
	g.note(s, hk)
}

func (g *c18Gen) get(s int, key []byte) {
	fmt.Fprintf(&g.b, " G%d:%s:%x", s, hexBytes(key), g.hash(s, key))
}

func (g *c18Gen) obs(kinds string, s int) {
	for i := 0; i < len(kinds); i++ {
		fmt.Fprintf(&g.b, " %c%d", kinds[i], s)
	}
}

func (g *c18Gen) mergeInto(dst, src int) {
	fmt.Fprintf(&g.b, " M%d:%d:", dst, src)
	if len(g.order[src]) == 0 {
		g.b.WriteByte('-')
	}
	for i, hk := range g.order[src] {
		if i > 0 {
			g.b.WriteByte(',')
		}
		fmt.Fprintf(&g.b, "%s=%x", hk, g.hash(dst, unhex(hk)))
	}
	for _, hk := range g.order[src] {
		g.note(dst, hk)
	}
	g.merge++
}

// key kinds: IPv4 (11 bytes), IPv6 (35), the same with an 8-byte timestamp (19 / 43), and odd sizes
var c18KeyLens = []int{11, 11, 11, 35, 35, 19, 43, 1, 64}

// c18Key builds the id-th key of a population: realistic layout, low entropy (few bytes differ)
func c18Key(klen int, pop uint64, id int) []byte {
	k := make([]byte, klen)
	for i := range k {
		k[i] = byte(pop >> (8 * (uint(i) % 8)))
	}
	if klen == 19 || klen == 43 { // time-extended
		binary.BigEndian.PutUint64(k[klen-8:], 1700000000+uint64(id%7)*300)
	}
	// the id goes into the "sip" (bijectively) and one more byte
	if klen >= 4 {
		binary.BigEndian.PutUint32(k[0:4], uint32(id)*2654435761+uint32(pop))
	} else {
		k[0] = byte(id)
	}
	if klen >= 11 {
		k[klen/2] = byte(id >> 3)
	}
	return k
}

func (g *c18Gen) done(class string) Case {
	nt := g.maxN >= 9 && (g.upd > 0 || g.merge > 0)
	return Case{Line: g.b.String(), Class: class, NonTrivial: nt}
}

var c18Hints = []int{0, 0, 0, 0, 1, 5, 8, 9, 13, 14, 27, 100, 1000}

// small mixed sequences: every observation after every op
func c18Small(r *Rand, maxOps int) Case {
	g := newC18Gen(r)
	nm := 1 + r.Intn(3)
	klen := Pick(r, c18KeyLens)
	pop := r.U64()
	pool := 4 + r.Intn(60)
	if r.Chance(1, 4) {
		pool = 100 + r.Intn(400)
	}
	if klen == 1 && pool > 200 {
		pool = 200
	}
	for s := 0; s < nm; s++ {
		g.newMap(s, Pick(r, c18Hints))
	}
	nops := 1 + r.Intn(maxOps)
	for i := 0; i < nops; i++ {
		s := r.Intn(nm)
		key := c18Key(klen, pop, r.Intn(pool))
		switch x := r.Intn(20); {
		case x < 11:
			g.put('U', s, key)
			g.get(s, key)
		case x < 15:
			g.put('S', s, key)
			g.get(s, key)
		case x < 17:
			g.get(s, key)
		case x == 17 && nm > 1:
			d := r.Intn(nm)
			if d == s {
				d = (s + 1) % nm
			}
			g.mergeInto(d, s)
			s = d
		case x == 18:
			g.newMap(s, Pick(r, c18Hints))
		default:
			g.obs("I", s)
		}
		g.obs("LPD", s)
	}
	for s := 0; s < nm; s++ {
		g.obs("LPI", s)
	}
	return g.done(fmt.Sprintf("small:klen%d", klen))
}

// distinct keys inserted one by one through the growth boundaries, probing after every insert and
// dumping around each boundary (9, 14, 27, 53, 105, 209, ... entries)
func c18Boundary(r *Rand, upto int) Case {
	g := newC18Gen(r)
	klen := Pick(r, c18KeyLens[:7])
	pop := r.U64()
	g.newMap(0, Pick(r, []int{0, 0, 0, 3, 9, 40}))
	bounds := map[int]bool{}
	for nb := 1; nb <= 1<<20; nb *= 2 {
		t := 13 * (nb / 2)
		if t < 8 {
			t = 8
		}
		for d := -1; d <= 2; d++ {
			bounds[t+d] = true
		}
	}
	for i := 0; i < upto; i++ {
		key := c18Key(klen, pop, i)
		op := byte('U')
		if r.Chance(1, 5) {
			op = 'S'
		}
		g.put(op, 0, key)
		g.obs("P", 0)
		if upto <= 300 || bounds[i+1] || r.Chance(1, 16) {
			g.obs("LD", 0)
		}
		if bounds[i+1] && i < 2000 {
			g.obs("I", 0)
		}
		if r.Chance(1, 6) {
			j := r.Intn(i + 1)
			k2 := c18Key(klen, pop, j)
			if r.Bool() {
				g.put('U', 0, k2)
			}
			g.get(0, k2)
		}
		if r.Chance(1, 20) {
			g.get(0, c18Key(klen, pop, upto+r.Intn(1000))) // absent key
		}
	}
	g.obs("LPD", 0)
	if upto <= 3000 {
		g.obs("I", 0)
	}
	return g.done(fmt.Sprintf("boundary:%d", upto))
}

// two (or three) maps grown to sizes that stop them in the middle of a growth, merged into each other
func c18Merge(r *Rand, maxSize int) Case {
	g := newC18Gen(r)
	klen := Pick(r, c18KeyLens[:7])
	pop := r.U64()
	nm := 2 + r.Intn(2)
	sizes := make([]int, nm)
	for s := 0; s < nm; s++ {
		g.newMap(s, Pick(r, c18Hints))
		// just past a growth trigger, so the map is still evacuating when it is merged / iterated
		nb := 1 << uint(r.Intn(12))
		t := 13 * (nb / 2)
		if t < 8 {
			t = 8
		}
		sizes[s] = t + 1 + r.Intn(nb/2+3)
		if r.Chance(1, 3) {
			sizes[s] = r.Intn(maxSize + 1)
		}
		if sizes[s] > maxSize {
			sizes[s] = r.Intn(maxSize + 1)
		}
		overlap := r.Intn(3) // 0: disjoint ids, 1: same ids, 2: shifted
		base := 0
		if overlap == 0 {
			base = s * maxSize * 2
		} else if overlap == 2 {
			base = s * sizes[s] / 2
		}
		for i := 0; i < sizes[s]; i++ {
			g.put('U', s, c18Key(klen, pop, base+i))
		}
		g.obs("LPD", s)
	}
	for k := 0; k < 1+r.Intn(3); k++ {
		src := r.Intn(nm)
		dst := r.Intn(nm)
		if dst == src {
			dst = (src + 1) % nm
		}
		g.mergeInto(dst, src)
		g.obs("LPD", dst)
		g.obs("LPD", src)
		// the source keeps changing afterwards; the destination must not notice
		for j := 0; j < r.Intn(4); j++ {
			key := c18Key(klen, pop, r.Intn(maxSize))
			g.put('U', src, key)
			g.get(dst, key)
		}
	}
	for s := 0; s < nm; s++ {
		g.obs("LPD", s)
		if len(g.keys[s]) <= 1500 {
			g.obs("I", s)
		}
	}
	return g.done("merge")
}

// large populations: digests at every growth boundary, a merge of two growing maps at the end
func c18Big(r *Rand, n int) Case {
	g := newC18Gen(r)
	klen := Pick(r, []int{11, 35, 19})
	pop := r.U64()
	g.newMap(0, 0)
	g.newMap(1, Pick(r, []int{0, n / 3}))
	next := 9
	for i := 0; i < n; i++ {
		key := c18Key(klen, pop, i)
		g.put('U', 0, key)
		if i%3 == 0 {
			g.put('U', 1, c18Key(klen, pop, i/3*2)) // overlaps with map 0 on every second of its keys
		}
		if i+1 == next {
			g.obs("LPD", 0)
			g.obs("LPD", 1)
			next = next*2 - 4 + r.Intn(8)
		}
		if r.Chance(1, 50) {
			j := r.Intn(i + 1)
			k2 := c18Key(klen, pop, j)
			g.put('U', 0, k2)
			g.get(0, k2)
		}
	}
	g.obs("LPD", 0)
	g.obs("LPD", 1)
	g.mergeInto(0, 1)
	g.obs("LPD", 0)
	g.obs("LPD", 1)
	for j := 0; j < 200; j++ {
		g.get(0, c18Key(klen, pop, r.Intn(n+n/10)))
	}
	return g.done(fmt.Sprintf("big:%d", n))
}

// edge cases: empty maps, the empty key, merges from / into empty maps, re-created maps, hints
func c18Special(r *Rand) []Case {
	var cs []Case
	{ // observations on maps that never received a key
		g := newC18Gen(r)
		g.newMap(0, 0)
		g.newMap(1, 100)
		g.obs("LPID", 0)
		g.obs("LPID", 1)
		g.get(0, []byte{1, 2, 3})
		g.get(1, []byte{})
		g.mergeInto(0, 1)
		g.mergeInto(1, 0)
		g.obs("LPID", 0)
		g.obs("LPID", 1)
		cs = append(cs, g.done("special:empty"))
	}
	{ // the empty key and one-byte keys
		g := newC18Gen(r)
		g.newMap(0, 0)
		g.put('U', 0, []byte{})
		g.put('S', 0, []byte{0})
		g.put('U', 0, []byte{})
		g.get(0, []byte{})
		g.get(0, []byte{0})
		g.get(0, []byte{0, 0})
		g.obs("LPID", 0)
		cs = append(cs, g.done("special:emptykey"))
	}
	for _, n := range []int{8, 9, 13, 14, 26, 27, 52, 53} { // exactly at / just past each growth trigger, then merged both ways
		g := newC18Gen(r)
		pop := r.U64()
		g.newMap(0, 0)
		g.newMap(1, 0)
		for i := 0; i < n; i++ {
			g.put('U', 0, c18Key(11, pop, i))
			g.obs("P", 0)
		}
		for i := n / 2; i < n+n/2; i++ {
			g.put('S', 1, c18Key(11, pop, i))
		}
		g.obs("LPID", 0)
		g.obs("LPID", 1)
		g.mergeInto(1, 0)
		g.obs("LPID", 1)
		g.mergeInto(0, 1)
		g.obs("LPID", 0)
		g.newMap(1, n)
		g.mergeInto(1, 0)
		g.obs("LPID", 1)
		cs = append(cs, g.done(fmt.Sprintf("special:trigger%d", n)))
	}
	return cs
}

func c18GenCases(r *Rand, tier string) []Case {
	var cs []Case
	cs = append(cs, c18Special(r)...)
	if tier == "thorough" {
		for i := 0; i < 3000; i++ {
			cs = append(cs, c18Small(r, 200))
		}
		for _, n := range []int{10, 30, 60, 120, 250, 500, 1000, 2000, 4000, 10000, 30000} {
			for k := 0; k < 4; k++ {
				cs = append(cs, c18Boundary(r, n))
			}
		}
		for i := 0; i < 400; i++ {
			cs = append(cs, c18Merge(r, 3000))
		}
		for i := 0; i < 20; i++ {
			cs = append(cs, c18Merge(r, 40000))
		}
		cs = append(cs, c18Big(r, 100000), c18Big(r, 300000), c18Big(r, 1000000))
		return cs
	}
	for i := 0; i < 300; i++ {
		cs = append(cs, c18Small(r, 200))
	}
	for _, n := range []int{10, 16, 30, 60, 120, 250, 500, 1200} {
		cs = append(cs, c18Boundary(r, n))
	}
	for i := 0; i < 60; i++ {
		cs = append(cs, c18Merge(r, 600))
	}
	cs = append(cs, c18Merge(r, 5000), c18Big(r, 20000))
	return cs
}

func init() {
	register(&Prop{
		ID: "C18",
		Rule: "seeded operation sequences on 1-3 real hashmap.Map instances (New with hints 0..1000; Set, SetOrUpdate, Get, Merge of distinct maps, Len, full iteration) over key populations of IPv4 (11 B), IPv6 (35 B), time-extended (19/43 B) and odd-sized (1/64 B) keys with few differing bytes; " +
			"classes: small (<=200 ops on a pool of 4..500 keys, Len + probe + iteration digest after every op, Get after every write), boundary (distinct keys inserted one by one through the growth triggers 9, 14, 27, 53, 105, ... with a probe after every insert and full dumps around each trigger), " +
			"merge (2-3 maps stopped just after a growth trigger, i.e. mid-evacuation, merged into each other, source mutated afterwards), big (2*10^4 quick; 10^5..10^6 thorough; digests at every doubling, merge of two growing maps). " +
			"The caller's key buffer is overwritten after every insert. Non-trivial: some map reaches >= 9 entries (at least one growth) and the case contains an update of an existing key or a merge. Distinct = distinct case lines.",
		Gen: c18GenCases,
		Run: c18Run,
	})
}
