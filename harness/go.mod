module verifharness

go 1.25.0

require (
	github.com/danielgtaylor/huma/v2 v2.37.3
	github.com/els0r/goProbe/v4 v4.0.0
	github.com/els0r/telemetry/logging v0.0.0-20260406010724-0c813ed6284d
	github.com/fako1024/gotools/bitpack v0.0.0-20260108133916-d42cb4e89f05
	github.com/fako1024/gotools/link v0.0.0-20260511092824-089d64760c34
	github.com/fako1024/slimcap v1.0.12
	github.com/json-iterator/go v1.1.12
	golang.org/x/net v0.55.0
)

require (
	github.com/beorn7/perks v1.0.1 // indirect
	github.com/cenkalti/backoff/v5 v5.0.3 // indirect
	github.com/cespare/xxhash/v2 v2.3.0 // indirect
	github.com/els0r/telemetry/metrics v0.0.0-20260406010724-0c813ed6284d // indirect
	github.com/els0r/telemetry/tracing v0.0.0-20260406010724-0c813ed6284d // indirect
	github.com/fako1024/gotools/concurrency v0.0.0-20260108133916-d42cb4e89f05 // indirect
	github.com/fako1024/httpc v1.1.3 // indirect
	github.com/felixge/httpsnoop v1.0.4 // indirect
	github.com/gabriel-vasile/mimetype v1.4.13 // indirect
	github.com/getkin/kin-openapi v0.144.0 // indirect
	github.com/gin-contrib/cors v1.7.7 // indirect
	github.com/gin-contrib/pprof v1.5.4 // indirect
	github.com/gin-contrib/sse v1.1.1 // indirect
	github.com/gin-gonic/gin v1.12.0 // indirect
	github.com/go-logr/logr v1.4.3 // indirect
	github.com/go-logr/stdr v1.2.2 // indirect
	github.com/go-openapi/jsonpointer v0.23.1 // indirect
	github.com/go-openapi/swag/jsonname v0.26.0 // indirect
	github.com/go-playground/locales v0.14.1 // indirect
	github.com/go-playground/universal-translator v0.18.1 // indirect
	github.com/go-playground/validator/v10 v10.30.2 // indirect
	github.com/goccy/go-yaml v1.19.2 // indirect
	github.com/google/uuid v1.6.0 // indirect
	github.com/grpc-ecosystem/grpc-gateway/v2 v2.29.0 // indirect
	github.com/klauspost/compress v1.18.6 // indirect
	github.com/klauspost/cpuid/v2 v2.3.0 // indirect
	github.com/leodido/go-urn v1.4.0 // indirect
	github.com/mattn/go-isatty v0.0.22 // indirect
	github.com/modern-go/concurrent v0.0.0-20180306012644-bacd9c7ef1dd // indirect
	github.com/modern-go/reflect2 v1.0.2 // indirect
	github.com/munnerz/goautoneg v0.0.0-20191010083416-a7dc8b61c822 // indirect
	github.com/oasdiff/yaml v0.1.1 // indirect
	github.com/oasdiff/yaml3 v0.0.14 // indirect
	github.com/pelletier/go-toml/v2 v2.3.1 // indirect
	github.com/pierrec/lz4/v4 v4.1.26 // indirect
	github.com/prometheus/client_golang v1.23.2 // indirect
	github.com/prometheus/client_model v0.6.2 // indirect
	github.com/prometheus/common v0.67.5 // indirect
	github.com/prometheus/procfs v0.20.1 // indirect
	github.com/quic-go/qpack v0.6.0 // indirect
	github.com/quic-go/quic-go v0.59.1 // indirect
	github.com/santhosh-tekuri/jsonschema/v6 v6.0.2 // indirect
	github.com/spf13/pflag v1.0.10 // indirect
	github.com/ugorji/go/codec v1.3.1 // indirect
	github.com/zeebo/xxh3 v1.1.0 // indirect
	go.mongodb.org/mongo-driver/v2 v2.6.0 // indirect
	go.opentelemetry.io/auto/sdk v1.2.1 // indirect
	go.opentelemetry.io/contrib/instrumentation/github.com/gin-gonic/gin/otelgin v0.68.0 // indirect
	go.opentelemetry.io/contrib/instrumentation/net/http/otelhttp v0.68.0 // indirect
	go.opentelemetry.io/contrib/propagators/b3 v1.43.0 // indirect
	go.opentelemetry.io/otel v1.43.0 // indirect
	go.opentelemetry.io/otel/exporters/otlp/otlptrace v1.43.0 // indirect
	go.opentelemetry.io/otel/exporters/otlp/otlptrace/otlptracegrpc v1.43.0 // indirect
	go.opentelemetry.io/otel/exporters/stdout/stdouttrace v1.43.0 // indirect
	go.opentelemetry.io/otel/metric v1.43.0 // indirect
	go.opentelemetry.io/otel/sdk v1.43.0 // indirect
	go.opentelemetry.io/otel/trace v1.43.0 // indirect
	go.opentelemetry.io/proto/otlp v1.10.0 // indirect
	go.yaml.in/yaml/v2 v2.4.4 // indirect
	golang.org/x/crypto v0.52.0 // indirect
	golang.org/x/sys v0.45.0 // indirect
	golang.org/x/text v0.37.0 // indirect
	golang.org/x/time v0.15.0 // indirect
	google.golang.org/genproto/googleapis/api v0.0.0-20260504160031-60b97b32f348 // indirect
	google.golang.org/genproto/googleapis/rpc v0.0.0-20260504160031-60b97b32f348 // indirect
	google.golang.org/grpc v1.82.1 // indirect
	google.golang.org/protobuf v1.36.11 // indirect
	gopkg.in/yaml.v3 v3.0.1 // indirect
)

replace github.com/els0r/goProbe/v4 => /repo

replace github.com/els0r/goProbe/plugins/contrib/v4 => /repo/plugins/contrib
