//go:build verif_all || verif_c02

package main

// C02 — databases are interchangeable between cgo and native compression builds.
//
// The encoder implementations are selected at BUILD time, so this harness builds ITSELF in the
// configurations under test on every run (`go build` of the harness directory into the -out dir):
//
//	cgo        CGO_ENABLED=1                          system liblz4 + libzstd
//	nocgo      CGO_ENABLED=0                          pure-Go lz4 + zstd
//	noliblz4   CGO_ENABLED=1 -tags goprobe_noliblz4   pure-Go lz4, system zstd
//	nolibzstd  CGO_ENABLED=1 -tags goprobe_nolibzstd  system lz4, pure-Go zstd
//
// and runs each as a child process (`__child c02srv`, line protocol). A case names a writer and a
// reader configuration: the writer's child writes the history through the real GPDir writer (which
// hands its own length-8192 scratch buffer to Compress), the reader's child opens the directory with
// the real GPDir reader and reports every block. Quick: cgo × nocgo; thorough: the full 4 × 4 matrix.

import (
	"bufio"
	"bytes"
	"errors"
	"fmt"
	"os"
	"os/exec"
	"path/filepath"
	"runtime/debug"
	"strconv"
	"strings"
	"sync"

	"github.com/els0r/goProbe/v4/pkg/goDB/encoder"
	"github.com/els0r/goProbe/v4/pkg/goDB/encoder/encoders"
	"github.com/els0r/goProbe/v4/pkg/goDB/storage/gpfile"
	"github.com/els0r/goProbe/v4/pkg/types"
)

const c02Day = int64(1699920000) // 2023-11-14 00:00:00 UTC

var c02Configs = []struct{ name, cgo, tag string }{
	{"cgo", "1", ""},
	{"nocgo", "0", ""},
	{"noliblz4", "1", "goprobe_noliblz4"},
	{"nolibzstd", "1", "goprobe_nolibzstd"},
}

// c02OwnCfg names the configuration this binary was built in (from the embedded build settings)
func c02OwnCfg() string {
	cgo, tags := "1", ""
	if bi, ok := debug.ReadBuildInfo(); ok {
		for _, s := range bi.Settings {
			switch s.Key {
			case "CGO_ENABLED":
				cgo = s.Value
			case "-tags":
				tags = s.Value
			}
		}
	}
	switch {
	case cgo != "1":
		return "nocgo"
	case strings.Contains(tags, "goprobe_noliblz4") && strings.Contains(tags, "goprobe_nolibzstd"):
		return "nocgo" // same wrapper selection as CGO_ENABLED=0
	case strings.Contains(tags, "goprobe_noliblz4"):
		return "noliblz4"
	case strings.Contains(tags, "goprobe_nolibzstd"):
		return "nolibzstd"
	}
	return "cgo"
}

func c02HarnessSrc() string {
	if r := os.Getenv("VERIF_ROOT"); r != "" {
		return filepath.Join(r, "harness")
	}
	exe, _ := os.Executable()
	return filepath.Join(filepath.Dir(filepath.Dir(exe)), "harness")
}

func c02OutDir() string {
	for i, a := range os.Args {
		if a == "-out" && i+1 < len(os.Args) {
			return os.Args[i+1]
		}
		if strings.HasPrefix(a, "-out=") {
			return a[5:]
		}
	}
	return os.TempDir()
}

// ---------------------------------------------------------------- child processes

type c02Child struct {
	bin string
	mu  sync.Mutex
	cmd *exec.Cmd
	in  *bufio.Writer
	out *bufio.Reader
}

func (c *c02Child) start() error {
	c.cmd = exec.Command(c.bin, "__child", "c02srv")
	stdin, _ := c.cmd.StdinPipe()
	stdout, _ := c.cmd.StdoutPipe()
	if os.Getenv("VERIF_DEBUG") != "" {
		c.cmd.Stderr = os.Stderr
	}
	if err := c.cmd.Start(); err != nil {
		return err
	}
	c.in, c.out = bufio.NewWriterSize(stdin, 1<<20), bufio.NewReaderSize(stdout, 1<<20)
	return nil
}

func (c *c02Child) stop() {
	if c.cmd != nil && c.cmd.Process != nil {
		_ = c.cmd.Process.Kill()
		_, _ = c.cmd.Process.Wait()
	}
}

// ask: ok=false when the child died while serving the request (it is restarted)
func (c *c02Child) ask(line string) (string, bool) {
	c.mu.Lock()
	defer c.mu.Unlock()
	fail := func() (string, bool) {
		c.stop()
		_ = c.start()
		return "", false
	}
	if _, err := c.in.WriteString(line + "\n"); err != nil {
		return fail()
	}
	if err := c.in.Flush(); err != nil {
		return fail()
	}
	s, err := c.out.ReadString('\n')
	if err != nil {
		return fail()
	}
	return strings.TrimRight(s, "\n"), true
}

var c02Children = map[string]*c02Child{}
var c02Active []string // configurations of this run

func c02Init(tier string) error {
	c02Active = []string{"cgo", "nocgo"}
	if tier == "thorough" {
		c02Active = []string{"cgo", "nocgo", "noliblz4", "nolibzstd"}
	}
	if v := os.Getenv("VERIF_C02_CONFIGS"); v != "" {
		c02Active = strings.Split(v, ",")
	}
	var wg sync.WaitGroup
	var mu sync.Mutex
	var errs []error
	for _, cf := range c02Configs {
		active := false
		for _, a := range c02Active {
			active = active || a == cf.name
		}
		if !active {
			continue
		}
		wg.Add(1)
		go func() {
			defer wg.Done()
			fail := func(err error) { mu.Lock(); errs = append(errs, err); mu.Unlock() }
			bin := filepath.Join(c02OutDir(), "verifharness_C02_"+cf.name)
			tags := "verif,verif_c02"
			if cf.tag != "" {
				tags += "," + cf.tag
			}
			cmd := exec.Command("go", "build", "-tags", tags, "-o", bin, ".")
			cmd.Dir = c02HarnessSrc()
			cmd.Env = append(os.Environ(), "GOFLAGS=-mod=mod", "GOPROXY=off", "GOWORK=off", "CGO_ENABLED="+cf.cgo)
			if o, err := cmd.CombinedOutput(); err != nil {
				fail(fmt.Errorf("building the %s harness: %v: %s", cf.name, err, o))
				return
			}
			c := &c02Child{bin: bin}
			if err := c.start(); err != nil {
				fail(err)
				return
			}
			if got, _ := c.ask("cfg"); got != cf.name {
				fail(fmt.Errorf("the %s harness reports configuration %q", cf.name, got))
				return
			}
			mu.Lock()
			c02Children[cf.name] = c
			mu.Unlock()
		}()
	}
	wg.Wait()
	return errors.Join(errs...)
}

var c02CurKey, c02CurDir string // the database of the last (writer, history) pair, reused by its readers

func c02Done() {
	for _, c := range c02Children {
		c.stop()
	}
	if c02CurDir != "" {
		os.RemoveAll(c02CurDir)
	}
}

func c02Serve([]string) int {
	in := bufio.NewReaderSize(os.Stdin, 1<<20)
	out := bufio.NewWriterSize(os.Stdout, 1<<20)
	for {
		line, err := in.ReadString('\n')
		f := strings.Fields(line)
		if len(f) > 0 {
			res := func() (res string) {
				defer func() {
					if r := recover(); r != nil {
						res = "panic"
					}
				}()
				switch f[0] {
				case "cfg":
					return c02OwnCfg()
				case "enc":
					lvl, _ := strconv.Atoi(f[2])
					return hexBytes(c02Compress(f[1], lvl, unhex(f[3])))
				case "write":
					lvl, _ := strconv.Atoi(f[3])
					return c02Write(f[1], f[2], lvl, f[4])
				case "read":
					return c02ReaderView(f[1], c02Day)
				}
				return "bad-request"
			}()
			fmt.Fprintln(out, res)
			out.Flush()
		}
		if err != nil {
			return 0
		}
	}
}

// ---------------------------------------------------------------- the real code (runs in the children)

func c02EncType(name string) encoders.Type {
	switch name {
	case "null":
		return encoders.EncoderTypeNull
	case "lz4":
		return encoders.EncoderTypeLZ4
	default:
		return encoders.EncoderTypeZSTD
	}
}

// c02Compress: what this build's encoder emits for data (nil scratch buffer). One encoder object per
// (type, level) is kept for the life of the child, as a GPFile keeps its encoder across blocks.
var c02Encoders = map[string]encoder.Encoder{}

func c02Compress(name string, level int, data []byte) []byte {
	if name == "null" || len(data) == 0 {
		return data
	}
	key := name + ":" + strconv.Itoa(level)
	e := c02Encoders[key]
	if e == nil {
		var err error
		if e, err = encoder.New(c02EncType(name)); err != nil {
			panic(err)
		}
		if level > 0 {
			e.SetLevel(level)
		}
		c02Encoders[key] = e
	}
	var b bytes.Buffer
	if _, err := e.Compress(data, nil, &b); err != nil {
		panic(err)
	}
	return b.Bytes()
}

func c02FindDayDir(base string, day int64) (monthPath, name string) {
	_ = filepath.WalkDir(base, func(p string, d os.DirEntry, err error) error {
		if err == nil && d.IsDir() && strings.HasPrefix(d.Name(), strconv.FormatInt(day, 10)) {
			monthPath, name = filepath.Dir(p), d.Name()
			return filepath.SkipAll
		}
		return nil
	})
	return
}

// c02Write performs the sessions of a history on base through the real GPDir writer
func c02Write(base, encName string, level int, sessions string) string {
	for _, sess := range splitSemi(sessions) {
		d := gpfile.NewDirWriter(base, c02Day, gpfile.WithEncoderTypeLevel(c02EncType(encName), level))
		if err := d.Open(); err != nil {
			return "err:open-writer"
		}
		failed := false
		for _, w := range splitList(sess) {
			p := strings.Split(w, "|")
			ts, _ := strconv.ParseInt(p[0], 10, 64)
			u := func(i int) uint64 { v, _ := strconv.ParseUint(p[i], 10, 64); return v }
			var cols [types.ColIdxCount][]byte
			for i := 0; i < int(types.ColIdxCount); i++ {
				cols[i] = unhex(strings.Split(p[8+i], "/")[0])
			}
			if err := d.WriteBlocks(ts, gpfile.TrafficMetadata{NumV4Entries: u(1), NumV6Entries: u(2), NumDrops: u(3)},
				types.Counters{BytesRcvd: u(4), BytesSent: u(5), PacketsRcvd: u(6), PacketsSent: u(7)}, cols); err != nil {
				failed = true
				break
			}
		}
		if failed {
			// as DBWriter.Write does: no Close; flush the raw files without touching the metadata
			for c := types.ColumnIndex(0); c < types.ColIdxCount; c++ {
				if gf, err := d.Column(c); err == nil && gf.RawFile() != nil {
					_ = gf.RawFile().Close()
				}
			}
			continue
		}
		if err := d.Close(); err != nil {
			return "err:close-writer"
		}
	}
	return "ok"
}

func c02ReaderView(base string, day int64) string {
	monthPath, name := c02FindDayDir(base, day)
	if name == "" {
		return "blocks=- totals=0:0:0:0:0:0:0"
	}
	if _, err := os.Stat(filepath.Join(monthPath, name, ".blockmeta")); os.IsNotExist(err) {
		return "blocks=- totals=0:0:0:0:0:0:0"
	}
	_, suffix, err := gpfile.ExtractTimestampMetadataSuffix(name)
	if err != nil {
		return "err:dirname"
	}
	d := gpfile.NewDirReader(base, day, suffix)
	if err := d.Open(); err != nil {
		return "err:open"
	}
	defer d.Close()
	var blocks []string
	for i := 0; i < d.NBlocks(); i++ {
		var cols []string
		for c := types.ColumnIndex(0); c < types.ColIdxCount; c++ {
			data, err := d.ReadBlockAtIndex(c, i)
			if err != nil {
				cols = append(cols, "ERR")
				continue
			}
			cols = append(cols, hexBytes(data))
		}
		bt := d.BlockTraffic[i]
		blocks = append(blocks, fmt.Sprintf("%d:%d:%d:%d:%s", d.BlockMetadata[0].BlockList[i].Timestamp, bt.NumV4Entries, bt.NumV6Entries, bt.NumDrops, strings.Join(cols, "|")))
	}
	t, c := d.Metadata.Traffic, d.Metadata.Counts
	return fmt.Sprintf("blocks=%s totals=%d:%d:%d:%d:%d:%d:%d", listField(blocks), t.NumV4Entries, t.NumV6Entries, t.NumDrops, c.BytesRcvd, c.BytesSent, c.PacketsRcvd, c.PacketsSent)
}

// ---------------------------------------------------------------- one case (main process)

func c02Files(base string) string {
	mp, name := c02FindDayDir(base, c02Day)
	var files []string
	for c := types.ColumnIndex(0); c < types.ColIdxCount; c++ {
		var b []byte
		if name != "" {
			fn := filepath.Join(mp, name, types.ColumnFileNames[c]+gpfile.FileSuffix)
			if st, err := os.Stat(fn); err == nil && st.Size() > 64<<20 {
				return fmt.Sprintf("err:huge-column-file:%d", st.Size())
			}
			b, _ = os.ReadFile(fn)
		}
		files = append(files, hexBytes(b))
	}
	return strings.Join(files, "|")
}

func c02Run(f []string) string {
	w, r, encName, level, sessions := f[0], f[1], f[2], f[3], f[4]
	cw, cr := c02Children[w], c02Children[r]
	if cw == nil || cr == nil {
		return "err:configuration-not-built"
	}
	key := w + " " + encName + " " + level + " " + sessions
	if key != c02CurKey {
		if c02CurDir != "" {
			os.RemoveAll(c02CurDir)
		}
		base, err := os.MkdirTemp("", "verif-c02-")
		if err != nil {
			panic(err)
		}
		c02CurKey, c02CurDir = "", base
		res, ok := cw.ask(fmt.Sprintf("write %s %s %s %s", base, encName, level, sessions))
		if !ok {
			return "err:writer-crashed"
		}
		if res != "ok" {
			return "writer:" + res
		}
		c02CurKey = key
	}
	view, ok := cr.ask("read " + c02CurDir)
	if !ok {
		return "err:reader-crashed"
	}
	return "files=" + c02Files(c02CurDir) + " " + view
}

// ---------------------------------------------------------------- generator

func c02Data(r *Rand, big bool) []byte {
	sizes := []int{0, 0, 1, 7, 64, 300, 1000}
	if big {
		sizes = []int{4095, 4096, 4097, 5000, 8192, 8193, 12000, 20000}
	}
	n := Pick(r, sizes)
	b := make([]byte, n)
	switch r.Intn(5) {
	case 0: // zeros
	case 1:
		copy(b, r.Bytes(n)) // incompressible: the null fallback is taken
	case 2:
		copy(b[n/2:], r.Bytes(n-n/2))
	case 3:
		for i := range b {
			b[i] = byte(i % 7)
		}
	default:
		// a few distinct bytes: compressed sizes (and possibly the fallback decision) differ between the codecs
		for i := range b {
			b[i] = byte(r.Intn(3)) * 85
		}
	}
	return b
}

func c02Gen(r *Rand, tier string) []Case {
	n := 30
	if tier == "thorough" {
		n = 400
	}
	var cs []Case
	for i := 0; i < n; i++ {
		encName := Pick(r, []string{"lz4", "lz4", "zstd", "zstd", "zstd", "null"})
		level := 0
		if encName == "lz4" {
			level = Pick(r, []int{0, 1, 4, 9, 12})
		} else if encName == "zstd" {
			level = Pick(r, []int{0, 1, 3, 6, 11, 19})
		}
		// the history: raw payloads only
		type rawWrite struct {
			head string
			cols [][]byte
		}
		nsess := 1 + r.Intn(3)
		slot := 0
		var stored []int64
		var hist [][]rawWrite
		nbig := 0
		for s := 0; s < nsess; s++ {
			nw := 1 + r.Intn(3)
			var ws []rawWrite
			var mine []int64
			abandoned := false
			for k := 0; k < nw && !abandoned; k++ {
				slot += 1 + r.Intn(3)
				ts := c02Day + int64(slot)*300
				if len(stored)+len(mine) > 0 && r.Chance(1, 14) {
					ts = Pick(r, append(append([]int64{}, stored...), mine...)) // duplicate: session abandoned
					abandoned = true
				}
				mine = append(mine, ts)
				head := strings.Join([]string{strconv.FormatInt(ts, 10),
					strconv.Itoa(r.Intn(1000)), strconv.Itoa(r.Intn(1000)), strconv.Itoa(r.Intn(50)),
					strconv.FormatInt(r.I64n(1<<40), 10), strconv.FormatInt(r.I64n(1<<40), 10), strconv.FormatInt(r.I64n(1<<30), 10), strconv.FormatInt(r.I64n(1<<30), 10)}, "|")
				bigCol := -1
				if r.Chance(2, 3) {
					bigCol = r.Intn(8)
				}
				var cols [][]byte
				for c := 0; c < 8; c++ {
					d := c02Data(r, c == bigCol)
					if len(d) > 4096 {
						nbig++
					}
					cols = append(cols, d)
				}
				ws = append(ws, rawWrite{head, cols})
			}
			if !abandoned {
				stored = append(stored, mine...)
			}
			hist = append(hist, ws)
		}
		// one set of cases per writer: the encoder outputs in the case are the WRITER's
		for _, w := range c02Active {
			var sess []string
			for _, ws := range hist {
				var lines []string
				for _, rw := range ws {
					parts := []string{rw.head}
					for _, d := range rw.cols {
						comp := d
						if encName != "null" && len(d) > 0 {
							res, ok := c02Children[w].ask(fmt.Sprintf("enc %s %d %s", encName, level, hexBytes(d)))
							if ok && res != "panic" {
								comp = unhex(res)
							}
						}
						parts = append(parts, hexBytes(d)+"/"+hexBytes(comp))
					}
					lines = append(lines, strings.Join(parts, "|"))
				}
				sess = append(sess, listField(lines))
			}
			for _, rd := range c02Active {
				cs = append(cs, Case{
					Line:       fmt.Sprintf("C02 %s %s %s %d %s", w, rd, encName, level, semiField(sess)),
					Class:      fmt.Sprintf("%s->%s:%s", w, rd, encName),
					NonTrivial: w != rd && encName != "null",
				})
			}
		}
		_ = nbig
	}
	return cs
}

func init() {
	children["c02srv"] = c02Serve
	register(&Prop{
		ID: "C02",
		Rule: "the harness builds itself in the configurations cgo, CGO_ENABLED=0 (quick) plus -tags goprobe_noliblz4 and goprobe_nolibzstd (thorough) and runs each as a child process. " +
			"Seeded histories (as C01: 1-3 sessions of 1-3 WriteBlocks on one day directory, 8 column payloads of {0,1,7,64,300,1000} bytes and one of {4095..20000}, contents zeros / random / half-random / periodic / three-valued, " +
			"lz4 levels {0,1,4,9,12}, zstd {0,1,3,6,11,19} or null; 1 in 14 writes reuses a stored timestamp) are written by EVERY configuration through the real GPDir writer and each database is read back by EVERY configuration through the real GPDir reader: " +
			"one case per (history, writer, reader). The column files the writer left are compared byte-for-byte with the model fed with that writer's encoder outputs (nil scratch buffer), the reader's view with the model and, by the spec, with the history. " +
			"Non-trivial: writer and reader configurations differ and the encoder is lz4 or zstd. Distinct = distinct case lines.",
		Gen:  c02Gen,
		Run:  c02Run,
		Init: c02Init,
		Done: c02Done,
	})
}
