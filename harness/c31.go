//go:build verif_all || verif_c31

package main

import (
	"context"
	"errors"
	"fmt"
	"io"
	"log"
	"os"
	"path/filepath"
	"runtime"
	"strconv"
	"strings"
	"sync"
	"time"

	gqdistributed "github.com/els0r/goProbe/v4/cmd/global-query/pkg/distributed"
	"github.com/els0r/goProbe/v4/pkg/capture/capturetypes"
	"github.com/els0r/goProbe/v4/pkg/distributed/hosts"
	"github.com/els0r/goProbe/v4/pkg/goDB"
	"github.com/els0r/goProbe/v4/pkg/goDB/encoder/encoders"
	"github.com/els0r/goProbe/v4/pkg/goDB/engine"
	"github.com/els0r/goProbe/v4/pkg/query"
	"github.com/els0r/goProbe/v4/pkg/results"
	"github.com/els0r/goProbe/v4/pkg/types"
	"github.com/els0r/goProbe/v4/pkg/types/hashmap"
)

// C31 — query concurrency limit. Bursts of REAL queries through engine.NewQueryRunner(…).Run (on a
// small database written with the real DBWriter) and through the distributed runner of
// global-query (with a stub Querier / Resolver), all sharing one harness-owned `chan struct{}`
// installed with WithMaxConcurrent.
//
// wire: C31 <eng|dist> <g|f> <cap> <held> <rel> <kind><p|i>,…      (see lean/GoProbeModel/Spec/C31.lean)
//
// "Executing" is made observable and as long as needed without touching the code under test: the
// engine receives a context.Context whose first Done() call from inside RunStatement (the
// context.WithCancel at its start, after the limit check) blocks until the harness opens the gate;
// the distributed runner's stub Querier blocks in Query(). A parked query is inside its execution
// phase and owns its slot, so the number of simultaneously parked queries is a lower bound of the
// number executing at once — counted by the harness, not read from the channel.

var (
	c31Dir     string
	c31Missing string
)

// Waits. A patient query waits c31PatientWait for a slot (with the code as it is it never waits
// longer than the few milliseconds a stage takes), a stage may take c31StageLimit. If the code under
// test is broken so that slots leak, every case would run into these limits; after a handful of such
// slow cases the limits are cut so that the run still ends (it is reported as failing anyway).
var (
	c31PatientWait = 8 * time.Second
	c31StageLimit  = 6 * time.Second
	c31SlowCases   = 0
)

func c31NoteDuration(d time.Duration) {
	if d > 3*time.Second {
		c31SlowCases++
		if c31SlowCases == 5 {
			c31PatientWait, c31StageLimit = 300*time.Millisecond, time.Second
		}
	}
}

func c31Init(string) error {
	log.SetOutput(io.Discard)
	dir, err := os.MkdirTemp("", "verif-c31-")
	if err != nil {
		return err
	}
	c31Dir = dir
	c31Missing = filepath.Join(dir, "no-such-db")
	for _, ifc := range []string{"eth0", "ethx"} {
		w := goDB.NewDBWriter(dir, ifc, encoders.EncoderTypeLZ4)
		for i := 0; i < 3; i++ {
			m := hashmap.NewAggFlowMap()
			m.PrimaryMap.Set(types.NewV4KeyStatic([4]byte{10, 0, 0, byte(1 + i)}, [4]byte{10, 0, 0, 2}, []byte{0, 80}, 6),
				types.Counters{BytesRcvd: 5, BytesSent: 7, PacketsRcvd: 11, PacketsSent: 13})
			if err := w.Write(m, capturetypes.CaptureStats{}, 1700000100+int64(i)*300); err != nil {
				return err
			}
		}
	}
	// ethx: an entry that is not a year next to the year directories -> the query fails while executing
	// (walking the interface's database). A damaged .blockmeta no longer does: such a day is skipped.
	if err := os.Mkdir(filepath.Join(dir, "ethx", "not-a-year"), 0o755); err != nil {
		return err
	}
	return nil
}

func c31Done() {
	if c31Dir != "" {
		_ = os.RemoveAll(c31Dir)
	}
}

type c31Query struct {
	kind    string
	patient bool
}

type c31Burst struct {
	runner          string
	gated           bool
	cap, held, rel  int
	qs              []c31Query
}

var c31Kinds = map[string]map[string]bool{
	"eng":  {"ok": true, "cx": true, "cy": true, "co": true, "ni": true, "nd": true, "pr": true},
	"dist": {"ok": true, "cx": true, "cy": true, "rf": true, "an": true, "pr": true, "nh": true, "nr": true},
}

func c31BeforeLimit(k string) bool { return k == "pr" || k == "nh" || k == "nr" }
func c31Parks(k string) bool       { return k == "ok" || k == "cx" || k == "cy" || k == "co" }

func c31Nat(s string) (int, bool) {
	if s == "" || len(s) > 9 {
		return 0, false
	}
	for _, c := range s {
		if c < '0' || c > '9' {
			return 0, false
		}
	}
	n, err := strconv.Atoi(s)
	return n, err == nil
}

func c31Parse(f []string) (*c31Burst, bool) {
	if len(f) != 6 {
		return nil, false
	}
	b := &c31Burst{runner: f[0]}
	if f[0] != "eng" && f[0] != "dist" {
		return nil, false
	}
	switch f[1] {
	case "g":
		b.gated = true
	case "f":
	default:
		return nil, false
	}
	var ok1, ok2, ok3 bool
	b.cap, ok1 = c31Nat(f[2])
	b.held, ok2 = c31Nat(f[3])
	b.rel, ok3 = c31Nat(f[4])
	if !ok1 || !ok2 || !ok3 {
		return nil, false
	}
	for _, q := range splitList(f[5]) {
		if len(q) != 3 || (q[2] != 'p' && q[2] != 'i') {
			return nil, false
		}
		switch q[:2] {
		case "ok", "cx", "cy", "co", "ni", "nd", "rf", "an", "pr", "nh", "nr":
		default:
			return nil, false
		}
		b.qs = append(b.qs, c31Query{kind: q[:2], patient: q[2] == 'p'})
	}
	return b, true
}

func (b *c31Burst) free() int { return max(b.cap-b.held, 0) }

func (b *c31Burst) parkable() int {
	n := 0
	for _, q := range b.qs {
		if q.patient && c31Parks(q.kind) {
			n++
		}
	}
	return n
}

func (b *c31Burst) valid() bool {
	if b.cap > 4 || b.held > b.cap || b.rel > b.held || len(b.qs) < 1 || len(b.qs) > 16 {
		return false
	}
	impNeeds, patNeeds := false, false
	for _, q := range b.qs {
		if !c31Kinds[b.runner][q.kind] {
			return false
		}
		if !c31BeforeLimit(q.kind) {
			if q.patient {
				patNeeds = true
			} else {
				impNeeds = true
			}
		}
	}
	if impNeeds {
		if b.gated && b.free() > b.parkable() {
			return false
		}
		if !b.gated && b.free() != 0 {
			return false
		}
	}
	if patNeeds && b.free()+b.rel < 1 {
		return false
	}
	return true
}

// ---- the gate ----------------------------------------------------------------------------------

type c31Gate struct {
	mu        sync.Mutex
	cond      *sync.Cond
	open      bool
	parkedNow int
	maxParked int
}

func newC31Gate(open bool) *c31Gate {
	g := &c31Gate{open: open}
	g.cond = sync.NewCond(&g.mu)
	return g
}

// enter is called by a query from inside its execution phase
func (g *c31Gate) enter(seen *bool) {
	g.mu.Lock()
	*seen = true
	if !g.open {
		g.parkedNow++
		if g.parkedNow > g.maxParked {
			g.maxParked = g.parkedNow
		}
		for !g.open {
			g.cond.Wait()
		}
		g.parkedNow--
	}
	g.mu.Unlock()
}

func (g *c31Gate) release() {
	g.mu.Lock()
	g.open = true
	g.cond.Broadcast()
	g.mu.Unlock()
}

func (g *c31Gate) snapshot() (now, mx int) {
	g.mu.Lock()
	defer g.mu.Unlock()
	return g.parkedNow, g.maxParked
}

// waitParked polls until exactly `target` queries are parked (more than target ends the wait too:
// the excess is what the judge is looking for)
func (g *c31Gate) waitParked(target int, limit time.Duration) bool {
	deadline := time.Now().Add(limit)
	for {
		now, _ := g.snapshot()
		if now >= target {
			return true
		}
		if time.Now().After(deadline) {
			return false
		}
		time.Sleep(100 * time.Microsecond)
	}
}

// c31Ctx is the context handed to the engine: the first Done() call that comes from inside
// (*QueryRunner).RunStatement parks the calling query at the gate.
type c31Ctx struct {
	context.Context
	gate *c31Gate
	once sync.Once
	seen *bool
}

func (c *c31Ctx) Done() <-chan struct{} {
	if c31CalledFrom("engine.(*QueryRunner).RunStatement") {
		c.once.Do(func() { c.gate.enter(c.seen) })
	}
	return c.Context.Done()
}

func c31CalledFrom(fn string) bool {
	var pcs [48]uintptr
	n := runtime.Callers(2, pcs[:])
	frames := runtime.CallersFrames(pcs[:n])
	for {
		fr, more := frames.Next()
		if strings.HasSuffix(fr.Function, fn) {
			return true
		}
		if !more {
			return false
		}
	}
}

// stub querier / resolver of the distributed runner
type c31Querier struct{}

type c31GateKey struct{}

type c31GateVal struct {
	gate *c31Gate
	seen *bool
}

func (c31Querier) Query(ctx context.Context, hs hosts.Hosts, _ *query.Args) (<-chan *results.Result, <-chan struct{}) {
	if gv, ok := ctx.Value(c31GateKey{}).(*c31GateVal); ok {
		gv.gate.enter(gv.seen)
	}
	rc := make(chan *results.Result, len(hs))
	kc := make(chan struct{})
	for _, h := range hs {
		r := results.New()
		r.Hostname = h
		r.Status.Code = types.StatusOK
		rc <- r
	}
	close(rc)
	close(kc)
	return rc, kc
}

type c31Resolver struct{}

func (c31Resolver) Resolve(_ context.Context, q string) (hosts.Hosts, error) {
	if q == "fail" {
		return nil, errors.New("resolver failure")
	}
	return hosts.Hosts{q}, nil
}

// ---- one burst ---------------------------------------------------------------------------------

func c31Args(b *c31Burst, idx int, q c31Query, defaultWait bool) *query.Args {
	iface, cond := "eth0", ""
	switch q.kind {
	case "co":
		iface = "ethx"
	case "ni":
		iface = "eth9"
	case "pr":
		if idx%2 == 0 {
			cond = "dport = "
		} else {
			iface = "eth0,!"
		}
	}
	if q.kind == "ok" && idx%3 == 1 {
		cond = "dport = 80"
	}
	a := query.NewArgs("sip,dip", iface)
	a.First, a.Last = "1700000000", "1700009000"
	a.Condition = cond
	a.Format = "json"
	switch {
	case q.patient && defaultWait:
		a.KeepAlive = 0 // DefaultSemTimeout (1s)
	case q.patient:
		a.KeepAlive = c31PatientWait
	default:
		a.KeepAlive = []time.Duration{1, time.Millisecond, 5 * time.Millisecond, 25 * time.Millisecond}[idx%4]
	}
	if b.runner == "dist" {
		a.QueryHosts = "hostA"
		switch q.kind {
		case "nh":
			a.QueryHosts = ""
		case "nr":
			a.QueryHostsResolverType = "nope"
		case "rf":
			a.QueryHosts = "fail"
		case "an":
			a.QueryHosts = "any"
		}
	}
	return a
}

func c31Run(f []string) string {
	t0 := time.Now()
	defer func() { c31NoteDuration(time.Since(t0)) }()
	b, ok := c31Parse(f)
	if !ok || !b.valid() {
		return "bad-case"
	}
	var sem chan struct{}
	sem = make(chan struct{}, b.cap)
	for i := 0; i < b.held; i++ {
		sem <- struct{}{}
	}
	defer func() { // whatever happened: nobody stays blocked on this burst's channel for long
		for len(sem) > 0 {
			select {
			case <-sem:
			default:
			}
		}
	}()
	gate := newC31Gate(!b.gated)
	defer gate.release()

	var good, missing, dist query.Runner
	if b.runner == "eng" {
		good = engine.NewQueryRunner(c31Dir, engine.WithMaxConcurrent(sem))
		missing = engine.NewQueryRunner(c31Missing, engine.WithMaxConcurrent(sem))
	} else {
		rm := hosts.NewResolverMap()
		rm.Set("string", c31Resolver{})
		dist = gqdistributed.NewQueryRunner(rm, c31Querier{}, gqdistributed.WithMaxConcurrent(sem))
	}

	n := len(b.qs)
	needs := 0
	for _, q := range b.qs {
		if !c31BeforeLimit(q.kind) {
			needs++
		}
	}
	defaultWait := !b.gated && needs <= b.free()
	classes := make([]string, n)
	seen := make([]bool, n)
	cancels := make([]context.CancelFunc, n)
	var wgPat, wgImp sync.WaitGroup
	launch := func(i int, wg *sync.WaitGroup) {
		q := b.qs[i]
		base, cancel := context.WithCancel(context.Background())
		cancels[i] = cancel
		if q.kind == "cx" {
			cancel()
		}
		var ctx context.Context
		var r query.Runner
		if b.runner == "eng" {
			ctx = &c31Ctx{Context: base, gate: gate, seen: &seen[i]}
			r = good
			if q.kind == "nd" {
				r = missing
			}
		} else {
			ctx = context.WithValue(base, c31GateKey{}, &c31GateVal{gate: gate, seen: &seen[i]})
			r = dist
		}
		args := c31Args(b, i, q, defaultWait)
		wg.Add(1)
		go func() {
			defer wg.Done()
			defer func() {
				if rec := recover(); rec != nil {
					classes[i] = "panic"
					if os.Getenv("VERIF_DEBUG") != "" {
						fmt.Fprintf(os.Stderr, "c31: query %d panicked: %v\n", i, rec)
					}
				}
			}()
			res, err := r.Run(ctx, args)
			switch {
			case err != nil:
				classes[i] = "err"
				if os.Getenv("VERIF_DEBUG") != "" {
					fmt.Fprintf(os.Stderr, "c31: query %d (%s): %v\n", i, q.kind, err)
				}
			case res != nil && res.Status.Code == types.StatusTooManyRequests:
				classes[i] = "tmr"
			default:
				// a result that is not "too many requests"; includes the (nil, nil) RunStatement returns
				// when the context is cancelled right at its final keep-alive check
				classes[i] = "ok"
			}
		}()
	}
	waitWG := func(wg *sync.WaitGroup, limit time.Duration) bool {
		ch := make(chan struct{})
		go func() { wg.Wait(); close(ch) }()
		select {
		case <-ch:
			return true
		case <-time.After(limit):
			return false
		}
	}
	cleanup := func() {
		gate.release()
		for _, c := range cancels {
			if c != nil {
				c()
			}
		}
	}
	free, parkable := b.free(), b.parkable()
	hasImp := false

	// stage 1: the patient queries; wait until the free slots are taken by parked queries
	for i, q := range b.qs {
		if q.patient {
			launch(i, &wgPat)
		} else {
			hasImp = true
		}
	}
	if b.gated {
		if !gate.waitParked(min(free, parkable), c31StageLimit) {
			cleanup()
			return "stall:1"
		}
		if !hasImp {
			time.Sleep(2 * time.Millisecond) // room for an excess query to show up
		}
	}
	// stage 2: the impatient queries arrive while every slot is in use
	if hasImp {
		for i, q := range b.qs {
			if !q.patient {
				launch(i, &wgImp)
			}
		}
		// … unless one of them is admitted and shows up at the gate: that is the excess the judge looks for
		impDone := make(chan struct{})
		go func() { wgImp.Wait(); close(impDone) }()
		deadline := time.Now().Add(c31StageLimit)
	stage2:
		for {
			select {
			case <-impDone:
				break stage2
			case <-time.After(200 * time.Microsecond):
			}
			if now, _ := gate.snapshot(); b.gated && now > min(free, parkable) {
				break stage2
			}
			if time.Now().After(deadline) {
				cleanup()
				return "stall:2"
			}
		}
	}
	_, p1 := gate.snapshot()
	// stage 3: cancel the `cy` queries, give back `rel` slots, wait for the newly admitted, open up
	for i, q := range b.qs {
		if q.kind == "cy" {
			cancels[i]()
		}
	}
	for i := 0; i < b.rel; i++ {
		select {
		case <-sem:
		case <-time.After(c31StageLimit):
			cleanup()
			return "stall:3"
		}
	}
	if b.gated {
		if !gate.waitParked(min(free+b.rel, parkable), c31StageLimit) {
			cleanup()
			return "stall:3"
		}
		time.Sleep(2 * time.Millisecond)
	}
	_, p3 := gate.snapshot()
	gate.release()
	if !waitWG(&wgPat, c31PatientWait+c31StageLimit) || !waitWG(&wgImp, c31StageLimit) {
		cleanup()
		return "stall:3"
	}
	final := len(sem)
	rejx := 0
	for i, c := range classes {
		if c == "panic" {
			return "panic"
		}
		if c == "tmr" && seen[i] {
			rejx++
		}
	}
	for _, c := range cancels {
		c()
	}
	return fmt.Sprintf("%s p1=%d p3=%d final=%d rejx=%d", listField(classes), p1, p3, final, rejx)
}

// ---- generator ---------------------------------------------------------------------------------

func c31Line(b *c31Burst) string {
	m := "f"
	if b.gated {
		m = "g"
	}
	qs := make([]string, len(b.qs))
	for i, q := range b.qs {
		p := "i"
		if q.patient {
			p = "p"
		}
		qs[i] = q.kind + p
	}
	return fmt.Sprintf("C31 %s %s %d %d %d %s", b.runner, m, b.cap, b.held, b.rel, listField(qs))
}

func c31GenBurst(r *Rand, maxQ int) *c31Burst {
	b := &c31Burst{runner: "eng", gated: r.Chance(7, 10)}
	if r.Chance(35, 100) {
		b.runner = "dist"
	}
	b.cap = 1 + r.Intn(4)
	if r.Chance(1, 40) {
		b.cap = 0
	}
	switch r.Intn(5) {
	case 0, 1:
		b.held = 0
	case 2:
		b.held = b.cap
	default:
		b.held = r.Intn(b.cap + 1)
	}
	b.rel = r.Intn(b.held + 1)
	if r.Chance(1, 3) {
		b.rel = b.held
	}
	n := 1 + r.Intn(maxQ)
	var kinds []string
	if b.runner == "eng" {
		kinds = []string{"ok", "ok", "ok", "ok", "cx", "cy", "co", "ni", "nd", "pr"}
	} else {
		kinds = []string{"ok", "ok", "ok", "ok", "cx", "cy", "rf", "an", "pr", "nh", "nr"}
	}
	pImp := r.Intn(60)
	for i := 0; i < n; i++ {
		b.qs = append(b.qs, c31Query{kind: Pick(r, kinds), patient: !r.Chance(pImp, 100)})
	}
	// repair towards the deterministic domain
	free := b.free()
	if free+b.rel == 0 {
		for i := range b.qs {
			if !c31BeforeLimit(b.qs[i].kind) {
				b.qs[i].patient = false
			}
		}
	}
	impNeeds := false
	for _, q := range b.qs {
		if !q.patient && !c31BeforeLimit(q.kind) {
			impNeeds = true
		}
	}
	if impNeeds && free > 0 {
		if b.gated {
			// enough patient, parkable queries to occupy every free slot while the impatient ones wait
			for b.parkable() < free && len(b.qs) < 16 {
				b.qs = append(b.qs, c31Query{kind: Pick(r, []string{"ok", "ok", "cy", "cx"}), patient: true})
			}
			r.Shuffle(len(b.qs), func(i, j int) { b.qs[i], b.qs[j] = b.qs[j], b.qs[i] })
		}
		if !b.gated || b.parkable() < free {
			for i := range b.qs {
				b.qs[i].patient = true
			}
		}
	}
	return b
}

func c31Gen(r *Rand, tier string) []Case {
	n, maxQ := 600, 12
	if tier == "thorough" {
		n, maxQ = 12000, 16
	}
	var cs []Case
	for i := 0; i < n; i++ {
		b := c31GenBurst(r, maxQ)
		if !b.valid() {
			// cannot happen after the repair; keep the stream honest if it does
			cs = append(cs, Case{Line: c31Line(b), Class: "invalid", NonTrivial: false})
			continue
		}
		needs, imp := 0, 0
		for _, q := range b.qs {
			if !c31BeforeLimit(q.kind) {
				needs++
				if !q.patient {
					imp++
				}
			}
		}
		contention := needs > b.free()
		cls := fmt.Sprintf("%s:%s:contention=%v:rejects=%v", b.runner, map[bool]string{true: "gated", false: "free"}[b.gated], contention, imp > 0)
		cs = append(cs, Case{Line: c31Line(b), Class: cls, NonTrivial: needs >= 2 && contention})
	}
	// malformed / out-of-domain stream: both sides must answer bad-case
	bad := []string{
		"C31 eng g 2 3 0 okp",            // held > cap
		"C31 eng g 2 1 2 okp",            // rel > held
		"C31 eng g 5 0 0 okp",            // cap > 4
		"C31 eng g 2 0 0 rfp",            // kind of the other runner
		"C31 dist g 2 0 0 cop",           // kind of the other runner
		"C31 eng g 2 0 0 oki",            // impatient query while a slot is free: outcome is a race
		"C31 eng f 2 1 0 okp,oki",        // same, free-running
		"C31 eng g 1 1 0 okp",            // patient query that can never get a slot
		"C31 eng g 0 0 0 okp",            // capacity 0, patient
		"C31 eng x 1 0 0 okp",            // bad mode
		"C31 eng g 1 0 0 -",              // no queries
		"C31 eng g 1 0 0 okq",            // bad patience
		"C31 foo g 1 0 0 okp",            // bad runner
		"C31 eng g 1 0 okp",              // missing field
	}
	for _, l := range bad {
		cs = append(cs, Case{Line: l, Class: "malformed", NonTrivial: false})
	}
	return cs
}

func init() {
	register(&Prop{
		ID: "C31",
		Rule: "seeded bursts of 1..12 (thorough 1..16) real queries per case on engine.QueryRunner (65%) / the distributed runner with a stub querier (35%), " +
			"semaphore = harness-owned chan of capacity 1..4 (rarely 0), 0..cap slots pre-held by the harness of which 0..held are given back in the last stage; " +
			"query kinds: ok, cancelled before / while executing, failing while executing (corrupt day), failing at interface selection, at interface listing (missing db), " +
			"at host resolution, and before the limit check (bad condition / interface argument, no hosts, unknown resolver); patient (8 s) or impatient (1 ns..25 ms keep-alive) waits; " +
			"70% gated (queries parked inside their execution phase so that overlap and over-limit arrival are forced), 30% free-running; plus a malformed/out-of-domain stream. " +
			"Non-trivial: at least two queries that need a slot and more such queries than free slots (contention). Distinct = distinct case lines.",
		Gen:  c31Gen,
		Run:  c31Run,
		Init: c31Init,
		Done: c31Done,
	})
}
