//go:build verif_all || verif_c03

package main

import (
	"bytes"
	"encoding/binary"
	"errors"
	"fmt"
	"io"
	"io/fs"
	"math"
	"os"
	"path/filepath"
	"runtime"
	"strconv"
	"strings"
	"time"

	"github.com/els0r/goProbe/v4/pkg/capture/capturetypes"
	"github.com/els0r/goProbe/v4/pkg/goDB"
	"github.com/els0r/goProbe/v4/pkg/goDB/encoder/encoders"
	"github.com/els0r/goProbe/v4/pkg/goDB/storage"
	"github.com/els0r/goProbe/v4/pkg/goDB/storage/gpfile"
	"github.com/els0r/goProbe/v4/pkg/types"
	"github.com/els0r/goProbe/v4/pkg/types/hashmap"
	"github.com/fako1024/gotools/bitpack"
)

// C03 — day metadata survives reopening: the real (*GPDir).Marshal / Unmarshal on generated
// metadata and on arbitrary bytes, and write histories through the real GPDir / DBWriter in a
// temporary directory, reopened with NewDirReader.

const (
	c03NCols = int(types.ColIdxCount)
	c03Day   = int64(1699920000) // 2023-11-14 00:00:00 UTC, the day directory of every history
)

// ---------------------------------------------------------------- normalised metadata

type c03Desc struct {
	Len, RawLen uint32
	Enc         uint8
}

type c03Col struct {
	Cur   uint64
	Descs []c03Desc
}

type c03Meta struct {
	Version uint64
	Tot     gpfile.TrafficMetadata
	Cnt     types.Counters
	Cols    []c03Col
	Ts      []int64
	Traffic []gpfile.TrafficMetadata
}

func c03ShowTraffic(t gpfile.TrafficMetadata) string {
	return fmt.Sprintf("%d:%d:%d", t.NumV4Entries, t.NumV6Entries, t.NumDrops)
}

func c03ShowBar(xs []string) string {
	if len(xs) == 0 {
		return "-"
	}
	return strings.Join(xs, "|")
}

func c03SplitBar(s string) []string {
	if s == "-" {
		return nil
	}
	return strings.Split(s, "|")
}

func (m *c03Meta) String() string {
	var ts, tr, cols []string
	for _, t := range m.Ts {
		ts = append(ts, strconv.FormatInt(t, 10))
	}
	for _, t := range m.Traffic {
		tr = append(tr, c03ShowTraffic(t))
	}
	for _, c := range m.Cols {
		var ds []string
		for _, d := range c.Descs {
			ds = append(ds, fmt.Sprintf("%d:%d:%d", d.Len, d.RawLen, d.Enc))
		}
		cols = append(cols, strconv.FormatUint(c.Cur, 10)+"/"+listField(ds))
	}
	return strings.Join([]string{
		strconv.FormatUint(m.Version, 10), c03ShowTraffic(m.Tot),
		fmt.Sprintf("%d:%d:%d:%d", m.Cnt.BytesRcvd, m.Cnt.BytesSent, m.Cnt.PacketsRcvd, m.Cnt.PacketsSent),
		listField(ts), listField(tr), c03ShowBar(cols)}, ";")
}

func c03U64s(s string, n int) []uint64 {
	p := strings.Split(s, ":")
	if len(p) != n {
		panic("bad field " + s)
	}
	out := make([]uint64, n)
	for i := range p {
		v, err := strconv.ParseUint(p[i], 10, 64)
		if err != nil {
			panic("bad number " + p[i])
		}
		out[i] = v
	}
	return out
}

func c03ParseMeta(s string) *c03Meta {
	f := strings.Split(s, ";")
	if len(f) != 6 {
		panic("bad meta")
	}
	m := &c03Meta{}
	m.Version = c03U64s(f[0], 1)[0]
	t := c03U64s(f[1], 3)
	m.Tot = gpfile.TrafficMetadata{NumV4Entries: t[0], NumV6Entries: t[1], NumDrops: t[2]}
	c := c03U64s(f[2], 4)
	m.Cnt = types.Counters{BytesRcvd: c[0], BytesSent: c[1], PacketsRcvd: c[2], PacketsSent: c[3]}
	for _, x := range splitList(f[3]) {
		v, err := strconv.ParseInt(x, 10, 64)
		if err != nil {
			panic("bad ts")
		}
		m.Ts = append(m.Ts, v)
	}
	for _, x := range splitList(f[4]) {
		t := c03U64s(x, 3)
		m.Traffic = append(m.Traffic, gpfile.TrafficMetadata{NumV4Entries: t[0], NumV6Entries: t[1], NumDrops: t[2]})
	}
	for _, x := range c03SplitBar(f[5]) {
		p := strings.Split(x, "/")
		col := c03Col{Cur: c03U64s(p[0], 1)[0]}
		for _, d := range splitList(p[1]) {
			v := c03U64s(d, 3)
			col.Descs = append(col.Descs, c03Desc{uint32(v[0]), uint32(v[1]), uint8(v[2])})
		}
		m.Cols = append(m.Cols, col)
	}
	return m
}

// toGo builds the Go metadata (offsets = running sums, every column carries the timestamps)
func (m *c03Meta) toGo() *gpfile.Metadata {
	g := &gpfile.Metadata{Version: m.Version, BlockTraffic: append([]gpfile.TrafficMetadata{}, m.Traffic...)}
	g.Traffic, g.Counts = m.Tot, m.Cnt
	for i := 0; i < c03NCols; i++ {
		h := &storage.BlockHeader{BlockList: []storage.BlockAtTime{}}
		if i < len(m.Cols) {
			h.CurrentOffset = m.Cols[i].Cur
			off := uint64(0)
			for j, d := range m.Cols[i].Descs {
				var ts int64
				if j < len(m.Ts) {
					ts = m.Ts[j]
				}
				h.BlockList = append(h.BlockList, storage.BlockAtTime{Timestamp: ts, Block: storage.Block{Offset: off, Len: d.Len, RawLen: d.RawLen, EncoderType: encoders.Type(d.Enc)}})
				off += uint64(d.Len)
			}
		}
		g.BlockMetadata[i] = h
	}
	return g
}

// fromGo normalises decoded Go metadata; x counts the (column, block) pairs whose derived data
// (offset = running sum of Len, timestamp = the one of column 0) is not what it should be
func c03FromGo(g *gpfile.Metadata) (m *c03Meta, x int) {
	m = &c03Meta{Version: g.Version, Tot: g.Traffic, Cnt: g.Counts, Traffic: g.BlockTraffic}
	for i := 0; i < c03NCols; i++ {
		h := g.BlockMetadata[i]
		col := c03Col{Cur: h.CurrentOffset}
		off := uint64(0)
		for j, b := range h.BlockList {
			col.Descs = append(col.Descs, c03Desc{b.Len, b.RawLen, uint8(b.EncoderType)})
			if i == 0 {
				m.Ts = append(m.Ts, b.Timestamp)
			} else if j >= len(m.Ts) || m.Ts[j] != b.Timestamp {
				x++
			}
			if b.Offset != off {
				x++
			}
			off += uint64(b.Len)
		}
		m.Cols = append(m.Cols, col)
	}
	return m, x
}

// ---------------------------------------------------------------- in-memory file

type c03File struct {
	data []byte
	pos  int
}

type c03Stat struct{ size int64 }

func (s c03Stat) Size() int64        { return s.size }
func (s c03Stat) Mode() os.FileMode  { return 0 }
func (s c03Stat) ModTime() time.Time { return time.Unix(0, 0) }
func (s c03Stat) IsDir() bool        { return false }
func (s c03Stat) Name() string       { return "" }
func (s c03Stat) Sys() any           { return nil }

func (f *c03File) Stat() (fs.FileInfo, error) { return c03Stat{int64(len(f.data))}, nil }
func (f *c03File) Read(p []byte) (int, error) {
	if f.pos >= len(f.data) {
		return 0, io.EOF
	}
	n := copy(p, f.data[f.pos:])
	f.pos += n
	return n, nil
}
func (f *c03File) Write(p []byte) (int, error) {
	f.data = append(f.data[:f.pos], p...)
	f.pos += len(p)
	return len(p), nil
}
func (f *c03File) Seek(off int64, whence int) (int64, error) { f.pos = int(off); return off, nil }
func (f *c03File) Close() error                               { return nil }

func c03Err(err error) string {
	switch {
	case err == nil:
		return "ok"
	case errors.Is(err, gpfile.ErrExceedsEncodingSize):
		return "err:encoding-size"
	case errors.Is(err, gpfile.ErrInputSizeTooSmall):
		return "err:too-small"
	case strings.Contains(err.Error(), "is not after the timestamp"):
		return "err:ts-order"
	case strings.Contains(err.Error(), "already present"):
		return "err:exists"
	case errors.Is(err, fs.ErrNotExist) || strings.Contains(err.Error(), "missing"):
		return "err:not-found"
	}
	return "err:other"
}

func c03Marshal(m *c03Meta) ([]byte, error) {
	d := &gpfile.GPDir{Metadata: m.toGo()}
	f := &c03File{}
	if err := d.Marshal(f); err != nil {
		return nil, err
	}
	return f.data, nil
}

func c03Unmarshal(b []byte) string {
	d := &gpfile.GPDir{}
	if err := d.Unmarshal(&c03File{data: b}); err != nil {
		return c03Err(err)
	}
	m, x := c03FromGo(d.Metadata)
	return fmt.Sprintf("ok %s x=%d", m, x)
}

// ---------------------------------------------------------------- histories

type c03Write struct {
	ts   int64
	tr   gpfile.TrafficMetadata
	cn   types.Counters
	lens []int
}

func (w c03Write) String() string {
	var ls []string
	for _, l := range w.lens {
		ls = append(ls, strconv.Itoa(l))
	}
	return fmt.Sprintf("%d:%d:%d:%d:%d:%d:%d:%d:%s", w.ts, w.tr.NumV4Entries, w.tr.NumV6Entries, w.tr.NumDrops,
		w.cn.BytesRcvd, w.cn.BytesSent, w.cn.PacketsRcvd, w.cn.PacketsSent, strings.Join(ls, "."))
}

func c03ParseWrite(s string) c03Write {
	p := strings.Split(s, ":")
	if len(p) != 9 {
		panic("bad write")
	}
	ts, err := strconv.ParseInt(p[0], 10, 64)
	if err != nil {
		panic("bad ts")
	}
	v := c03U64s(strings.Join(p[1:8], ":"), 7)
	w := c03Write{ts: ts, tr: gpfile.TrafficMetadata{NumV4Entries: v[0], NumV6Entries: v[1], NumDrops: v[2]},
		cn: types.Counters{BytesRcvd: v[3], BytesSent: v[4], PacketsRcvd: v[5], PacketsSent: v[6]}}
	for _, l := range strings.Split(p[8], ".") {
		n, err := strconv.Atoi(l)
		if err != nil || n < 0 || n > 1<<24 {
			panic("bad len")
		}
		w.lens = append(w.lens, n)
	}
	if len(w.lens) != c03NCols {
		panic("bad lens")
	}
	return w
}

// c03FlowMap builds the flow map of a `w` session: v4+v6 flows with distinct keys, the first one
// carrying all the counters
func c03FlowMap(w c03Write) *hashmap.AggFlowMap {
	fm := hashmap.NewAggFlowMap()
	first := true
	cnt := func() (a, b, c, d uint64) {
		if first {
			first = false
			return w.cn.BytesRcvd, w.cn.BytesSent, w.cn.PacketsRcvd, w.cn.PacketsSent
		}
		return 0, 0, 0, 0
	}
	for i := 0; i < int(w.tr.NumV4Entries); i++ {
		a, b, c, d := cnt()
		fm.SetOrUpdate(types.NewV4KeyStatic([4]byte{10, 0, 0, byte(i + 1)}, [4]byte{10, 0, 1, byte(i + 1)}, []byte{0, 80}, 6), true, a, b, c, d)
	}
	for i := 0; i < int(w.tr.NumV6Entries); i++ {
		a, b, c, d := cnt()
		fm.SetOrUpdate(types.NewV6KeyStatic([16]byte{0x20, 1, 0xd, 0xb8, 15: byte(i + 1)}, [16]byte{0x20, 1, 0xd, 0xb8, 14: 1, 15: byte(i + 1)}, []byte{1, 187}, 17), false, a, b, c, d)
	}
	return fm
}

// c03FlowLens: the column lengths dbData produces for the flow map of c03FlowMap
func c03FlowLens(w c03Write) []int {
	n4, n6 := int(w.tr.NumV4Entries), int(w.tr.NumV6Entries)
	n := n4 + n6
	col := func(first uint64) int {
		vals := make([]uint64, n)
		if n > 0 {
			vals[0] = first
		}
		return len(bitpack.Pack(vals))
	}
	return []int{4*n4 + 16*n6, 4*n4 + 16*n6, n, 2 * n, col(w.cn.BytesRcvd), col(w.cn.BytesSent), col(w.cn.PacketsRcvd), col(w.cn.PacketsSent)}
}

var (
	c03Tmp     string
	c03Aborted int
)

func c03Hist(spec string) string {
	base, err := os.MkdirTemp(c03Tmp, "h")
	if err != nil {
		panic(err)
	}
	defer os.RemoveAll(base)
	var results []string
	for _, ss := range c03SplitBar(spec) {
		p := strings.SplitN(ss, "/", 2)
		if len(p) != 2 {
			panic("bad session")
		}
		var ws []c03Write
		for _, x := range splitList(p[1]) {
			ws = append(ws, c03ParseWrite(x))
		}
		var rs []string
		closeRes := ""
		switch p[0] {
		case "w": // goDB.DBWriter.Write: one block, day directory derived from the block timestamp
			if len(ws) != 1 || gpfile.DirTimestamp(ws[0].ts) != c03Day {
				return "bad-case"
			}
			w := ws[0]
			err := goDB.NewDBWriter(base, "eth0", encoders.EncoderTypeNull).Write(c03FlowMap(w), capturetypes.CaptureStats{Dropped: w.tr.NumDrops}, w.ts)
			// Write = Open, WriteBlocks, Close: tell a rejected block (no Close) from a failed Close
			switch r := c03Err(err); r {
			case "ok":
				rs, closeRes = []string{"ok"}, "ok"
			case "err:ts-order", "err:exists":
				rs, closeRes = []string{r}, "skipped"
			case "err:encoding-size":
				// rejected by WriteBlocks (fixed code); a Marshal failure in Close would look the same
				rs, closeRes = []string{r}, "skipped"
			default:
				rs, closeRes = []string{r}, "skipped"
			}
		case "a", "c":
			d := gpfile.NewDirWriter(filepath.Join(base, "eth0"), c03Day, gpfile.WithEncoderTypeLevel(encoders.EncoderTypeNull, 0))
			if err := d.Open(); err != nil {
				results = append(results, "-;open"+c03Err(err))
				continue
			}
			failed := false
			for _, w := range ws {
				var data [types.ColIdxCount][]byte
				for i := range data {
					data[i] = bytes.Repeat([]byte{byte(0xa0 + i)}, w.lens[i])
				}
				r := c03Err(d.WriteBlocks(w.ts, w.tr, w.cn, data))
				rs = append(rs, r)
				if r != "ok" {
					failed = true
					break
				}
			}
			if failed && p[0] == "a" {
				closeRes = "skipped" // like DBWriter.WriteBulk: return the error without Close
				if c03Aborted++; c03Aborted%64 == 0 {
					runtime.GC() // abandoned column files are closed by their finalizers
				}
			} else {
				closeRes = c03Err(d.Close())
			}
		default:
			panic("bad mode")
		}
		results = append(results, listField(rs)+";"+closeRes)
	}
	// what is on disk now
	sfx, hexMeta := "-", "-"
	ents, _ := filepath.Glob(filepath.Join(base, "eth0", "*", "*", strconv.FormatInt(c03Day, 10)+"*"))
	if len(ents) > 1 {
		return c03ShowBar(results) + " several-day-directories"
	}
	if len(ents) == 1 {
		if i := strings.IndexByte(filepath.Base(ents[0]), '_'); i >= 0 {
			sfx = filepath.Base(ents[0])[i+1:]
		}
		if b, err := os.ReadFile(filepath.Join(ents[0], ".blockmeta")); err == nil {
			hexMeta = hexBytes(b)
		}
	}
	// reopen
	r := gpfile.NewDirReader(filepath.Join(base, "eth0"), c03Day, "")
	if err := r.Open(); err != nil {
		return fmt.Sprintf("%s %s %s %s", c03ShowBar(results), sfx, hexMeta, c03Err(err))
	}
	m, x := c03FromGo(r.Metadata)
	out := fmt.Sprintf("%s %s %s ok %s x=%d", c03ShowBar(results), sfx, hexMeta, m, x)
	_ = r.Close()
	return out
}

func c03Run(f []string) string {
	switch f[0] {
	case "rt":
		b, err := c03Marshal(c03ParseMeta(f[1]))
		if err != nil {
			return c03Err(err)
		}
		return "ok " + hexBytes(b) + " " + c03Unmarshal(b)
	case "unm":
		return c03Unmarshal(unhex(f[1]))
	case "hist":
		return c03Hist(f[1])
	case "sfx":
		var v []uint64
		for _, x := range splitList(f[1]) {
			n, err := strconv.ParseUint(x, 10, 64)
			if err != nil {
				panic("bad number")
			}
			v = append(v, n)
		}
		if len(v) != 7 {
			return "bad-case"
		}
		m := &gpfile.Metadata{}
		m.Traffic = gpfile.TrafficMetadata{NumV4Entries: v[0], NumV6Entries: v[1], NumDrops: v[2]}
		m.Counts = types.Counters{BytesRcvd: v[3], BytesSent: v[4], PacketsRcvd: v[5], PacketsSent: v[6]}
		sfx := strings.Clone(m.MarshalString())
		if !strings.HasPrefix(sfx, "_") {
			return "no-underscore"
		}
		return sfx[1:] + " " + c03UnmarshalString(sfx[1:])
	case "sfxd":
		return c03UnmarshalString(string(unhex(f[1])))
	case "wdmg":
		n, _ := strconv.Atoi(f[1])
		keep, _ := strconv.Atoi(f[2])
		return c03WriteOnDamagedDay(n, keep)
	}
	return "bad-op"
}

// c03WriteOnDamagedDay: n blocks written by the real DBWriter, the day's .blockmeta cut to `keep` bytes
// (or, keep < 0, its block count set to -keep times the real one), then two more DBWriter.Write calls to
// that day: both must be refused with an error (no crash) and must leave the damaged file as it is.
func c03WriteOnDamagedDay(n, keep int) (res string) {
	base, err := os.MkdirTemp(c03Tmp, "d")
	if err != nil {
		panic(err)
	}
	defer os.RemoveAll(base)
	mk := func(i int) c03Write {
		return c03Write{ts: c03Day + int64(300*(i+1)), tr: gpfile.TrafficMetadata{NumV4Entries: 1, NumDrops: uint64(i)}, cn: types.Counters{BytesRcvd: uint64(10 + i), PacketsRcvd: 1}}
	}
	for i := 0; i < n; i++ {
		w := mk(i)
		if err := goDB.NewDBWriter(base, "eth0", encoders.EncoderTypeNull).Write(c03FlowMap(w), capturetypes.CaptureStats{Dropped: w.tr.NumDrops}, w.ts); err != nil {
			return "err:setup"
		}
	}
	var metaPath string
	_ = filepath.Walk(base, func(p string, fi os.FileInfo, err error) error {
		if err == nil && filepath.Base(p) == ".blockmeta" {
			metaPath = p
		}
		return nil
	})
	data, err := os.ReadFile(metaPath)
	if err != nil {
		return "err:setup"
	}
	if keep >= 0 {
		if keep >= len(data) {
			keep = len(data) - 1
		}
		data = data[:keep]
	} else {
		binary.BigEndian.PutUint64(data[8:], uint64(-keep)*uint64(n))
	}
	if err := os.WriteFile(metaPath, data, 0o644); err != nil {
		return "err:setup"
	}
	var outs []string
	for i := n; i < n+2; i++ {
		w := mk(i)
		func() {
			defer func() {
				if r := recover(); r != nil {
					outs = append(outs, "panic")
				}
			}()
			if err := goDB.NewDBWriter(base, "eth0", encoders.EncoderTypeNull).Write(c03FlowMap(w), capturetypes.CaptureStats{}, w.ts); err != nil {
				outs = append(outs, "err")
			} else {
				outs = append(outs, "ok")
			}
		}()
	}
	state := "unchanged"
	if now, err := os.ReadFile(metaPath); err != nil || !bytes.Equal(now, data) {
		state = "changed"
	}
	return listField(outs) + " " + state
}

func c03UnmarshalString(s string) string {
	m := &gpfile.Metadata{}
	if err := m.UnmarshalString(s); err != nil {
		return "err:fields"
	}
	return fmt.Sprintf("ok %d,%d,%d,%d,%d,%d,%d", m.Traffic.NumV4Entries, m.Traffic.NumV6Entries, m.Traffic.NumDrops,
		m.Counts.BytesRcvd, m.Counts.BytesSent, m.Counts.PacketsRcvd, m.Counts.PacketsSent)
}

// ---------------------------------------------------------------- generators

func c03U64(r *Rand) uint64 {
	switch r.Intn(10) {
	case 0:
		return 0
	case 1:
		return math.MaxUint64
	case 2:
		return 1 << 63
	case 3:
		return 1<<32 - 1
	case 4:
		return 1 << 32
	case 5:
		return r.U64()
	default:
		return r.U64() % (1 << 40)
	}
}

func c03U32(r *Rand) uint32 {
	switch r.Intn(8) {
	case 0:
		return 0
	case 1:
		return math.MaxUint32
	case 2:
		return uint32(r.U64())
	default:
		return uint32(r.U64() % 100000)
	}
}

// per-block count: mostly small, sometimes at or beyond the 32-bit limit; big reports whether it is beyond
func c03Count(r *Rand, extreme bool) (v uint64, big bool) {
	if extreme {
		switch r.Intn(5) {
		case 0:
			return 1<<32 - 1, false
		case 1:
			return 1 << 32, true
		case 2:
			return math.MaxUint64, true
		case 3:
			return 1<<32 + r.U64()%1000, true
		}
	}
	return r.U64() % 5000, false
}

// next timestamp after last; kind names the step
func c03Step(r *Rand, last int64, odd bool) (int64, string) {
	if !odd {
		return last + 300, "mono"
	}
	switch r.Intn(9) {
	case 0:
		return last - 300, "back"
	case 1:
		return last - 1 - r.I64n(1<<33), "back"
	case 2:
		return last, "dup"
	case 3:
		return last + 1<<32 - 1, "maxgap"
	case 4:
		return last + 1<<32, "gap"
	case 5:
		return last + 1<<32 + r.I64n(1<<40), "gap"
	case 6:
		return last + 1, "mono"
	default:
		return last + 1 + r.I64n(86400), "mono"
	}
}

func c03Blocks(r *Rand, tier string) int {
	// the Lean model reads by position in a list (quadratic in the file size), so quick runs keep
	// the share of large values small
	large := 40
	if tier == "thorough" {
		large = 15
	}
	if r.Chance(1, large) {
		if r.Bool() {
			return 300
		}
		return 100 + r.Intn(201)
	}
	switch r.Intn(10) {
	case 0:
		return 0
	case 1:
		return 1
	case 2, 3:
		return 9 + r.Intn(40)
	default:
		return 2 + r.Intn(7)
	}
}

func c03GenMeta(r *Rand, tier string, valid bool) (m *c03Meta, class string) {
	n := c03Blocks(r, tier)
	m = &c03Meta{Version: 1}
	if r.Chance(1, 10) {
		m.Version = c03U64(r)
	}
	var ts int64
	switch r.Intn(8) {
	case 0:
		ts = int64(r.U64()) // anywhere in int64, negative included
	case 1:
		ts = math.MaxInt64 - r.I64n(1<<34)
	case 2:
		ts = math.MinInt64 + r.I64n(1<<34)
	case 3:
		ts = -r.I64n(1 << 33)
	default:
		ts = 1699920000 + 300*r.I64n(288)
	}
	kinds := map[string]bool{}
	oddTs := !valid && r.Chance(1, 2)
	oddCnt := !valid && (!oddTs || r.Chance(1, 3))
	for i := 0; i < n; i++ {
		if i > 0 {
			k := "mono"
			if valid {
				// representable steps only, still exercising the extremes
				switch r.Intn(6) {
				case 0:
					ts, k = ts+1<<32-1, "maxgap"
				case 1:
					ts++
				default:
					ts += 1 + r.I64n(100000)
				}
			} else {
				ts, k = c03Step(r, ts, oddTs && r.Chance(1, 3))
			}
			kinds[k] = true
		}
		m.Ts = append(m.Ts, ts)
		var t gpfile.TrafficMetadata
		var b1, b2, b3 bool
		t.NumV4Entries, b1 = c03Count(r, oddCnt && r.Chance(1, 6))
		t.NumV6Entries, b2 = c03Count(r, oddCnt && r.Chance(1, 6))
		t.NumDrops, b3 = c03Count(r, (oddCnt || valid) && r.Chance(1, 6))
		if valid && b3 {
			t.NumDrops = 1<<32 - 1
			b3 = false
		}
		if b1 || b2 || b3 {
			kinds["bigcount"] = true
		}
		m.Traffic = append(m.Traffic, t)
		m.Tot = m.Tot.Add(t)
	}
	// int64 wrap-around of the generated timestamps makes a step look like "back"; classes are
	// informative only, the model decides
	m.Cnt = types.Counters{BytesRcvd: c03U64(r), BytesSent: c03U64(r), PacketsRcvd: c03U64(r), PacketsSent: c03U64(r)}
	if r.Chance(1, 4) {
		m.Tot = gpfile.TrafficMetadata{NumV4Entries: c03U64(r), NumV6Entries: c03U64(r), NumDrops: c03U64(r)}
	}
	for i := 0; i < c03NCols; i++ {
		col := c03Col{}
		for j := 0; j < n; j++ {
			d := c03Desc{Len: c03U32(r), RawLen: c03U32(r), Enc: uint8(r.Intn(4))}
			if r.Chance(1, 20) {
				d.Enc = uint8(r.U64())
			}
			col.Descs = append(col.Descs, d)
			col.Cur += uint64(d.Len)
		}
		if r.Chance(1, 5) {
			col.Cur = c03U64(r)
		}
		m.Cols = append(m.Cols, col)
	}
	class = "valid"
	for _, k := range []string{"back", "dup", "gap", "bigcount"} {
		if kinds[k] {
			class = "unrepresentable"
		}
	}
	return m, class
}

func c03GenBytes(r *Rand, tier string) (b []byte, class string) {
	switch r.Intn(10) {
	case 0:
		return r.Bytes(r.Intn(144)), "short-random"
	case 1:
		return r.Bytes(144 + r.Intn(600)), "random"
	case 2:
		b = make([]byte, []int{0, 1, 71, 72, 143, 144, 145, 231, 232, 233}[r.Intn(10)])
		if len(b) >= 16 && r.Bool() {
			b[15] = byte(r.Intn(3))
		}
		return b, "boundary-length"
	}
	m, _ := c03GenMeta(r, tier, true)
	b, err := c03Marshal(m)
	if err != nil {
		return r.Bytes(200), "random"
	}
	switch r.Intn(9) {
	case 0:
		return b, "valid"
	case 1:
		return b[:r.Intn(len(b))], "truncated"
	case 2:
		return b[:len(b)-1-r.Intn(min(len(b)-1, 20))], "truncated-tail"
	case 3:
		return append(b, r.Bytes(1+r.Intn(200))...), "trailing-garbage"
	case 4: // block count changed
		n := uint64(len(m.Ts))
		nn := []uint64{n + 1, n + 2, n * 2, math.MaxUint64, 1 << 32, 1 << 56, (math.MaxUint64 / 88) + 2, n / 2, 0}[r.Intn(9)]
		for i := 0; i < 8; i++ {
			b[8+i] = byte(nn >> (56 - 8*i))
		}
		return b, "nblocks-changed"
	case 5:
		for k := 1 + r.Intn(4); k > 0; k-- {
			b[r.Intn(len(b))] ^= byte(1 << r.Intn(8))
		}
		return b, "bit-flips"
	case 6:
		i := r.Intn(len(b))
		copy(b[i:], r.Bytes(min(len(b)-i, 1+r.Intn(40))))
		return b, "garbage-run"
	case 7: // timestamps near the int64 limits: deltas wrap
		if len(b) >= 144+88 {
			p := 72 + 8*(8+9*len(m.Ts))
			for i := 0; i < 8; i++ {
				b[p+i] = 0xff
			}
			b[p] = 0x7f
		}
		return b, "ts-overflow"
	default:
		return b[:144+r.Intn(len(b)-143)], "truncated-after-header"
	}
}

func c03GenHist(r *Rand, tier string) (line string, class string, attempts int) {
	nsess := 1 + r.Intn(5)
	big := r.Chance(1, 25)
	last := c03Day + 300*r.I64n(200)
	haveBlock := false
	odd := r.Chance(2, 3)
	var sessions []string
	kinds := map[string]bool{}
	for s := 0; s < nsess; s++ {
		mode := []string{"a", "c", "w", "a"}[r.Intn(4)]
		nw := r.Intn(5)
		if big && s == 0 {
			mode, nw = "a", 150+r.Intn(151)
		}
		if mode == "w" && gpfile.DirTimestamp(last) != c03Day {
			mode = "a" // DBWriter.Write derives the day directory from the block timestamp
		}
		if mode == "w" {
			nw = 1
		}
		var ws []string
		for i := 0; i < nw; i++ {
			w := c03Write{}
			k := "first"
			if !haveBlock {
				w.ts = last
			} else {
				w.ts, k = c03Step(r, last, odd && !big && r.Chance(1, 4))
			}
			if mode == "w" && gpfile.DirTimestamp(w.ts) != c03Day {
				// DBWriter.Write picks the day directory from the timestamp: stay inside the day
				if room := c03Day + gpfile.EpochDay - 1 - last; w.ts > last && room > 0 {
					w.ts, k = last+1+r.I64n(min(room, 300)), "mono"
				} else {
					w.ts, k = c03Day+r.I64n(last-c03Day+1), "back"
					if w.ts == last {
						k = "dup"
					}
				}
			}
			kinds[k] = true
			var b1, b2, b3 bool
			ext := odd && !big && r.Chance(1, 8)
			w.tr.NumV4Entries, b1 = c03Count(r, ext && mode != "w")
			w.tr.NumV6Entries, b2 = c03Count(r, ext && mode != "w" && r.Bool())
			w.tr.NumDrops, b3 = c03Count(r, ext || r.Chance(1, 10))
			if mode == "w" {
				w.tr.NumV4Entries, w.tr.NumV6Entries = uint64(r.Intn(4)), uint64(r.Intn(4))
			}
			if b1 || b2 || b3 {
				kinds["bigcount"] = true
				k = "bigcount"
			}
			w.cn = types.Counters{BytesRcvd: c03U64(r), BytesSent: r.U64() % (1 << 40), PacketsRcvd: r.U64() % (1 << 30), PacketsSent: c03U64(r)}
			if mode == "w" {
				if w.tr.NumV4Entries+w.tr.NumV6Entries == 0 {
					w.cn = types.Counters{}
				}
				w.lens = c03FlowLens(w)
			} else {
				for c := 0; c < c03NCols; c++ {
					l := r.Intn(24)
					switch r.Intn(12) {
					case 0:
						l = 0
					case 1:
						l = 4000 + r.Intn(5000) // across the 4096-byte write buffer
					}
					if big {
						l = r.Intn(6)
					}
					w.lens = append(w.lens, l)
				}
			}
			ws = append(ws, w.String())
			attempts++
			if k == "first" || k == "mono" || k == "maxgap" {
				// expected to be accepted (unless the session is lost later): later steps refer to it
				last, haveBlock = w.ts, true
			}
		}
		sessions = append(sessions, mode+"/"+listField(ws))
	}
	class = "monotone"
	for _, k := range []string{"back", "dup", "gap", "bigcount"} {
		if kinds[k] {
			class = "with-unrepresentable"
		}
	}
	return "C03 hist " + c03ShowBar(sessions), "hist:" + class, attempts
}

const c03Alnum = "0123456789abcdefghijklmnopqrstuvwxyzABCDEFGHIJKLMNOPQRSTUVWXYZ"

func c03GenSuffix(r *Rand) (b []byte, class string) {
	field := func() []byte {
		n := r.Intn(13) // up to 12 digits: 11 suffice for 2^64, longer ones wrap around
		f := make([]byte, n)
		for i := range f {
			f[i] = c03Alnum[r.Intn(len(c03Alnum))]
		}
		return f
	}
	switch r.Intn(6) {
	case 0: // any bytes the decoder has a table entry for (0..122), dashes included
		b = r.Bytes(r.Intn(40))
		for i := range b {
			b[i] %= 123
		}
		return b, "sfxd:bytes<=z"
	case 1: // wrong number of fields
		n := []int{0, 1, 5, 6, 8, 9}[r.Intn(6)]
		for i := 0; i < n; i++ {
			if i > 0 {
				b = append(b, '-')
			}
			b = append(b, field()...)
		}
		return b, "sfxd:field-count"
	default:
		for i := 0; i < 7; i++ {
			if i > 0 {
				b = append(b, '-')
			}
			b = append(b, field()...)
		}
		if r.Chance(1, 4) && len(b) > 0 {
			b[r.Intn(len(b))] = []byte("_:;@[`/ +")[r.Intn(9)]
		}
		return b, "sfxd:seven-fields"
	}
}

func c03Gen(r *Rand, tier string) []Case {
	nrt, nunm, nhist := 500, 1500, 400
	if tier == "thorough" {
		nrt, nunm, nhist = 20000, 40000, 20000
	}
	var cs []Case
	for i := 0; i < nrt; i++ {
		m, class := c03GenMeta(r, tier, r.Chance(1, 2))
		cs = append(cs, Case{Line: "C03 rt " + m.String(), Class: "rt:" + class, NonTrivial: len(m.Ts) >= 2})
	}
	for i := 0; i < nunm; i++ {
		b, class := c03GenBytes(r, tier)
		cs = append(cs, Case{Line: "C03 unm " + hexBytes(b), Class: "unm:" + class, NonTrivial: len(b) >= 144})
	}
	for i := 0; i < nrt; i++ {
		var v []string
		for j := 0; j < 7; j++ {
			v = append(v, strconv.FormatUint(c03U64(r), 10))
		}
		cs = append(cs, Case{Line: "C03 sfx " + listField(v), Class: "sfx", NonTrivial: true})
		b, class := c03GenSuffix(r)
		cs = append(cs, Case{Line: "C03 sfxd " + hexBytes(b), Class: class, NonTrivial: len(b) > 0})
	}
	for i := 0; i < nhist/4; i++ {
		n := 1 + r.Intn(4)
		keep := r.Intn(144 + 88*n) // any truncation of the 144+88n bytes
		if r.Chance(1, 4) {
			keep = -(2 + r.Intn(1000)) // implausible block count
		}
		cs = append(cs, Case{Line: fmt.Sprintf("C03 wdmg %d %d", n, keep), Class: "wdmg", NonTrivial: true})
	}
	for i := 0; i < nhist; i++ {
		line, class, attempts := c03GenHist(r, tier)
		cs = append(cs, Case{Line: line, Class: class, NonTrivial: attempts >= 2})
	}
	return cs
}

func init() {
	register(&Prop{
		ID: "C03",
		Rule: "seeded. rt: metadata values with 0..300 blocks (timestamps anywhere in int64; steps +300, +1, random, 2^32-1, and - in the invalid half - backwards, duplicate, >= 2^32; per-block counts small, 2^32-1, >= 2^32, 2^64-1; random totals, offsets, lengths, encoder bytes) through the real Marshal, then the real Unmarshal on the produced bytes; the bytes and the decoded value are compared with the model. " +
			"unm: the real Unmarshal on random bytes, boundary lengths, and marshalled metadata that was truncated, extended, bit-flipped, overwritten, or given another block count (n+1, 2n, 2^32, 2^56, 2^64-1, ...). " +
			"hist: 1..5 writer sessions (GPDir Open/WriteBlocks*/Close with or without Close after a rejected block, or goDB.DBWriter.Write with a small flow map) on one day directory in a temporary directory, null encoder, 0..5 blocks each (1 in 25 histories: 150..300 blocks), steps as above, then NewDirReader.Open; per-write results, directory suffix, .blockmeta bytes and reopened metadata compared with the model. " +
			"wdmg: 1-4 blocks written by the real DBWriter, the day's .blockmeta truncated to any shorter length (or its block count multiplied), then two more DBWriter.Write calls to that day: both must be refused without a crash and leave the damaged file untouched. " +
			"sfx: MarshalString of seven uint64 totals (0, 2^32-1, 2^32, 2^63, 2^64-1, random) and UnmarshalString of the result; sfxd: UnmarshalString on seven alphanumeric fields of 0..12 digits (longer than 11 wraps), other field counts, stray punctuation, arbitrary bytes <= 'z' (bytes above 'z' are refused before decoding since the C06 fix; the corpus holds one such suffix). " +
			"Non-trivial: rt with >= 2 blocks; unm with >= 144 bytes; hist with >= 2 attempted writes; every sfx, non-empty sfxd. Distinct = distinct case lines.",
		Gen: c03Gen,
		Run: c03Run,
		Init: func(tier string) error {
			var err error
			c03Tmp, err = os.MkdirTemp(os.Getenv("TMPDIR"), "verif-c03-")
			return err
		},
		Done: func() {
			if c03Tmp != "" {
				_ = os.RemoveAll(c03Tmp)
			}
		},
	})
}
