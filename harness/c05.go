//go:build verif_all || verif_c05

package main

import (
	"fmt"
	"os"
	"path/filepath"
	"strconv"
	"strings"

	"github.com/els0r/goProbe/v4/pkg/goDB/encoder/encoders"
)

// C05 — failed I/O during a write-out: the n-th file operation of write-out k returns errno
// (strace error injection); the writer's status and the database afterwards are observed.

func c05Run(f []string) string {
	var ws []WriteOut
	for _, s := range splitSemi(f[0]) {
		ws = append(ws, parseWriteOut(s))
	}
	p := strings.Split(f[1], ".")
	k, _ := strconv.Atoi(p[0])
	n, _ := strconv.Atoi(p[1])
	errno := f[2]
	work, err := os.MkdirTemp("", "verif-c05-")
	if err != nil {
		panic(err)
	}
	if os.Getenv("VERIF_KEEP") == "" {
		defer os.RemoveAll(work)
	}
	db := filepath.Join(work, "db")
	_ = os.MkdirAll(db, 0o755)
	first, last := c04Range(ws)
	var out []string
	for i, w := range ws {
		if i != k {
			if err := writeOut(db, w.Iface, w.TS, w.Drops, w.Flows, encoders.EncoderTypeLZ4); err != nil {
				out = append(out, fmt.Sprintf("w%d=err:%s", i, errClass(err)))
			}
			continue
		}
		dry := filepath.Join(work, "dry")
		_ = copyTree(db, dry)
		ops, inj, _ := runChildWriteOut(dry, w, "", work)
		_ = os.RemoveAll(dry)
		st := "ok"
		if n < len(ops) {
			var fops []string
			fops, _, st = runChildWriteOut(db, w, fmt.Sprintf(inj[n], "error="+errno), work)
			// mark the failed operation: drop its result field
			if n < len(fops) {
				o := fops[n]
				if !strings.HasPrefix(o, "mkdir:") {
					o = o[:strings.LastIndex(o, ":")]
				}
				fops[n] = o + "!" + errno
			}
			ops = fops
		} else {
			_, _, st = runChildWriteOut(db, w, "", work)
		}
		if strings.HasPrefix(st, "err") {
			st = "err"
		}
		out = append(out, "ops="+listField(ops), "st="+st, "q1="+queryRows(db, "any", first, last, ""), "l1="+listSummary(db, first, last))
	}
	out = append(out, "q2="+queryRows(db, "any", first, last, ""), "l2="+listSummary(db, first, last))
	return strings.Join(out, " ")
}

func c05Gen(r *Rand, tier string) []Case {
	nh := 2
	if tier == "thorough" {
		nh = 30
	}
	var cs []Case
	day := int64(1699920000)
	for h := 0; h < nh; h++ {
		nw := 2 + r.Intn(3)
		ifaces := []string{"eth0", "eth1"}
		slot := map[string]int64{}
		var hs []string
		for i := 0; i < nw; i++ {
			ifc := ifaces[r.Intn(1+r.Intn(2))]
			slot[ifc] += int64(1 + r.Intn(2))
			if r.Chance(1, 5) {
				slot[ifc] += 288
			}
			nf := 1 + r.Intn(3)
			if r.Chance(1, 8) {
				nf = 0
			}
			hs = append(hs, WriteOut{Iface: ifc, TS: day + slot[ifc]*300, Drops: uint64(r.Intn(5)), Flows: genFlows(r, nf)}.String())
		}
		hist := semiField(hs)
		for k := 0; k < nw; k++ {
			// operation 0 is the listing of the month directory, whose failure the code cannot tell from
			// "no such directory" (see DESIGN.md, C05): injection starts at operation 1
			for n := 1; n <= 30; n++ {
				errno := Pick(r, []string{"ENOSPC", "ENOSPC", "EIO", "EACCES"})
				cs = append(cs, Case{Line: fmt.Sprintf("C05 %s %d.%d %s", hist, k, n, errno), Class: fmt.Sprintf("fault:w%d/%d:%s", k, nw, errno), NonTrivial: true})
			}
		}
	}
	return cs
}

func init() {
	register(&Prop{
		ID:       "C05",
		Rule:     "seeded histories of 2-4 real write-outs and, for EVERY write-out k and EVERY file operation n >= 1 of it (mkdirat/openat/write/renameat/fchmodat/unlinkat, enumerated from a strace dry run), a run in which that operation fails with ENOSPC, EIO or EACCES (strace error injection into the writing child process); the writer's status, the query and the listing are observed right afterwards and again after the remaining write-outs. The faulty run's system-call trace must equal the model's op list incl. the error path. Non-trivial: every fault case. Distinct = distinct (history, k, n, errno).",
		Gen:      c05Gen,
		Run:      c05Run,
		Parallel: 8,
	})
}
