//go:build verif_all || verif_c22

package main

import (
	"fmt"
	"strconv"

	"github.com/els0r/goProbe/v4/pkg/capture"
	"github.com/els0r/goProbe/v4/pkg/capture/capturetypes"
)

// C22 — flow orientation: the key under which the first packet of a conversation is stored,
// for the packet and for its mirror image (harness-side byte swap, independent of Reverse()).

func mirrorHash(h []byte, alen int) []byte {
	m := make([]byte, len(h))
	half := alen + 2
	copy(m[0:half], h[half:2*half])
	copy(m[half:2*half], h[0:half])
	m[2*half] = h[2*half]
	return m
}

func c22Stored(v6 bool, h []byte, aux byte) string {
	c := capture.VerifNewCapture("verif0")
	if v6 {
		var k capturetypes.EPHashV6
		copy(k[:], h)
		c.VerifAddV6(k, 0, 100, aux)
		if len(c.VerifFlowLog().FlowsV6()) != 1 || len(c.VerifFlowLog().FlowsV4()) != 0 {
			return "not-one-flow"
		}
		for k := range c.VerifFlowLog().FlowsV6() {
			return hexBytes([]byte(k))
		}
	}
	var k capturetypes.EPHashV4
	copy(k[:], h)
	c.VerifAddV4(k, 0, 100, aux)
	if len(c.VerifFlowLog().FlowsV4()) != 1 || len(c.VerifFlowLog().FlowsV6()) != 0 {
		return "not-one-flow"
	}
	for k := range c.VerifFlowLog().FlowsV4() {
		return hexBytes([]byte(k))
	}
	return "none"
}

func c22Run(f []string) string {
	v6 := f[0] == "v6"
	h := unhex(f[1])
	aux, _ := strconv.Atoi(f[2])
	auxm, _ := strconv.Atoi(f[3])
	alen := 4
	if v6 {
		alen = 16
	}
	return c22Stored(v6, h, byte(aux)) + " " + c22Stored(v6, mirrorHash(h, alen), byte(auxm))
}

var c22Ports = []uint16{0, 1, 22, 53, 80, 443, 1023, 1024, 8080, 32767, 32768, 32769, 40000, 40001, 49152, 60999, 65535}

func c22Gen(r *Rand, tier string) []Case {
	n := 3000
	if tier == "thorough" {
		n = 400000
	}
	var cs []Case
	for i := 0; i < n; i++ {
		v6 := r.Chance(1, 3)
		alen := 4
		if v6 {
			alen = 16
		}
		h := make([]byte, 2*alen+5)
		addr := func(off int) {
			b := r.Bytes(alen)
			switch r.Intn(12) {
			case 0:
				for j := range b {
					b[j] = 0xff
				}
			case 1:
				b[0], b[1], b[2] = 0xe0, 0, byte(r.Intn(3))
			case 2:
				b[0] = 0xff
			}
			copy(h[off:], b)
		}
		addr(0)
		addr(alen + 2)
		port := func(off int) uint16 {
			p := Pick(r, c22Ports)
			if r.Chance(1, 3) {
				p = uint16(r.Intn(65536))
			}
			h[off], h[off+1] = byte(p>>8), byte(p)
			return p
		}
		sp := port(alen)
		dp := port(2*alen + 2)
		if r.Chance(1, 10) { // adjacent / byte-boundary ports
			d := int(sp) + Pick(r, []int{-256, -1, 1, 256, 255, -255})
			if d >= 0 && d < 65536 {
				dp = uint16(d)
				h[2*alen+2], h[2*alen+3] = byte(dp>>8), byte(dp)
			}
		}
		icmp := byte(1)
		if v6 {
			icmp = 58
		}
		proto := Pick(r, []byte{6, 6, 6, 17, 17, icmp, icmp, 50, 47})
		if r.Chance(1, 30) {
			proto = byte(r.Intn(256))
		}
		h[2*alen+4] = proto
		aux, auxm := 0, 0
		cls := "other"
		switch proto {
		case 6:
			switch r.Intn(4) {
			case 0:
				aux, auxm = 0x02, 0x12
				cls = "tcp-syn/synack"
			case 1:
				aux, auxm = 0x12, 0x10
				cls = "tcp-synack/ack"
			case 2:
				aux, auxm = Pick(r, []int{0, 0x10, 0x18, 0x11, 0x04}), Pick(r, []int{0, 0x10, 0x18, 0x11, 0x14})
				cls = "tcp-noflags"
			default:
				aux, auxm = r.Intn(256), r.Intn(256)
				cls = "tcp-random-flags"
			}
		case 17:
			cls = "udp"
		case icmp:
			if v6 {
				aux, auxm = Pick(r, []int{128, 129, 1, 3, 4, 135, 136}), Pick(r, []int{129, 128, 1, 3, 136})
			} else {
				aux, auxm = Pick(r, []int{8, 0, 13, 14, 3, 11, 12, 5}), Pick(r, []int{0, 8, 14, 13, 3, 11})
			}
			if r.Chance(1, 2) {
				if v6 {
					aux, auxm = 128, 129
				} else if r.Bool() {
					aux, auxm = 8, 0
				} else {
					aux, auxm = 13, 14
				}
			}
			cls = "icmp"
		}
		fam := "v4"
		if v6 {
			fam = "v6"
		}
		nt := (proto == 6 || proto == 17 || proto == icmp) && sp != dp
		cs = append(cs, Case{Line: fmt.Sprintf("C22 %s %s %d %d", fam, hexBytes(h), aux, auxm), Class: fam + ":" + cls, NonTrivial: nt})
	}
	return cs
}

func init() {
	register(&Prop{
		ID:   "C22",
		Rule: "seeded 5-tuple hashes (IPv4/IPv6; TCP/UDP/ICMP/other protocols; ports from a boundary table {0,1,53,80,443,1023,1024,32767,32768,...,65535}, random and adjacent pairs; unicast, broadcast and multicast addresses) with TCP-flag / ICMP-type bytes for the packet and its mirror image; each is inserted into an empty flow log through the real addToFlowLogV4/V6. Non-trivial: TCP/UDP/ICMP with distinct ports. Distinct = distinct case lines.",
		Gen:  c22Gen,
		Run:  c22Run,
	})
}
