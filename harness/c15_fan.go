//go:build verif_all || verif_c15

package main

import (
	"context"
	"fmt"
	"net"
	"net/http"
	"net/http/httptest"
	"os"
	"path/filepath"
	"sort"
	"strconv"
	"strings"
	"sync"
	"time"

	gqdist "github.com/els0r/goProbe/v4/cmd/global-query/pkg/distributed"
	"github.com/els0r/goProbe/v4/pkg/api"
	"github.com/els0r/goProbe/v4/pkg/api/goprobe/client"
	"github.com/els0r/goProbe/v4/pkg/distributed/hosts"
	"github.com/els0r/goProbe/v4/pkg/query"
	"github.com/els0r/goProbe/v4/pkg/results"
	"github.com/els0r/goProbe/v4/plugins/querier/apiclient"
	"github.com/els0r/goProbe/v4/plugins/resolver/stringresolver"
	jsoniter "github.com/json-iterator/go"
)

// C15, the querier's fan-out (plugins/querier/apiclient/querier.go).
//
// Two more case kinds run the REAL `APIClientQuerier.Query` against per-host goProbe API endpoints
// served by httptest servers on 127.0.0.1:
//
//   C15 fan <mc> <replies>         `Query(ctx, hosts, args)` itself; the result channel is drained
//                                  until it is closed (or a timeout fires: `hang`).
//      output: closed;<entries>  |  hang;<entries>      entries sorted, one per result taken from
//              the channel:  <host>:ok:<#rows>  |  <host>:error:<kind>
//   C15 run <mc> <cfg> <replies>   the real distributed `QueryRunner.Run` on top of that querier
//                                  (string resolver, Args.Prepare, aggregateResults).
//      output: the canonical result of the `agg` kind (c15ShowResult) | hang | err:<msg>
//
//   mc      = the querier's MaxConcurrent (any integer) | default (apiclient.New on a config file:
//             2*NumCPU)
//   replies = as in the `agg` kind; the host list of the query is the replies' hosts in that order.
//             R/… is what the host's API answers (JSON over HTTP); E/<host>/<kind>/<w> is a host
//             that fails the way <kind> says:
//               unknown  no endpoint configured for the host (ErrorRunner)
//               http422  the host's API answers 422 with an error document
//               badjson  the host's API answers 200 with a body that is not JSON
//               refused  the endpoint's port is closed (the client retries for 7 s)
//   cfg     = as in the `agg` kind, restricted to what query.Args can express without a time label:
//             sortBy bytes|packets, tsLabel 0, binSecs 300, limit >= 1

const c15FanTimeout = 40 * time.Second

type c15Served struct {
	status int
	body   []byte
}

var (
	c15FanMu      sync.Mutex
	c15FanServers = map[int]*httptest.Server{}
	c15FanBodies  = map[int]c15Served{}
	c15FanDead    string // an address nobody listens on
)

func c15FanServer(host int) *httptest.Server {
	c15FanMu.Lock()
	defer c15FanMu.Unlock()
	if s, ok := c15FanServers[host]; ok {
		return s
	}
	mux := http.NewServeMux()
	mux.HandleFunc(api.QueryRoute, func(w http.ResponseWriter, _ *http.Request) {
		c15FanMu.Lock()
		sv, ok := c15FanBodies[host]
		c15FanMu.Unlock()
		if !ok {
			w.WriteHeader(http.StatusNotFound)
			return
		}
		w.Header().Set("Content-Type", "application/json")
		w.WriteHeader(sv.status)
		_, _ = w.Write(sv.body)
	})
	s := httptest.NewServer(mux)
	c15FanServers[host] = s
	return s
}

func c15FanDeadAddr() string {
	c15FanMu.Lock()
	defer c15FanMu.Unlock()
	if c15FanDead == "" {
		l, err := net.Listen("tcp", "127.0.0.1:0")
		if err != nil {
			panic(err)
		}
		c15FanDead = l.Addr().String()
		_ = l.Close()
	}
	return c15FanDead
}

// c15FanSetup arms the per-host endpoints for one case and returns the endpoint configuration
// and the host list (the replies' hosts, in order)
func c15FanSetup(replies []c15Reply) (map[string]*client.Config, hosts.Hosts) {
	endpoints := map[string]*client.Config{}
	var hostList hosts.Hosts
	served := map[int]c15Served{}
	for i := range replies {
		rp := &replies[i]
		name := c15Host(rp.host)
		hostList = append(hostList, name)
		if rp.isErr {
			switch rp.msg {
			case "unknown":
				continue
			case "refused":
				endpoints[name] = &client.Config{Addr: c15FanDeadAddr(), RequestTimeout: 30 * time.Second}
				continue
			case "http422":
				served[rp.host] = c15Served{http.StatusUnprocessableEntity, []byte(`{"title":"Unprocessable Entity","status":422,"detail":"query preparation failed"}`)}
			default: // badjson
				served[rp.host] = c15Served{http.StatusOK, []byte(`<<this is not json>>`)}
			}
		} else {
			body, err := jsoniter.Marshal(rp.build())
			if err != nil {
				panic(err)
			}
			served[rp.host] = c15Served{http.StatusOK, body}
		}
		endpoints[name] = &client.Config{Addr: c15FanServer(rp.host).Listener.Addr().String(), RequestTimeout: 30 * time.Second}
	}
	c15FanMu.Lock()
	c15FanBodies = served
	c15FanMu.Unlock()
	return endpoints, hostList
}

func c15FanQuerier(mc string, endpoints map[string]*client.Config) *apiclient.APIClientQuerier {
	if mc == "default" {
		// the production constructor: endpoints from a config file, MaxConcurrent = 2*NumCPU
		var sb strings.Builder
		names := make([]string, 0, len(endpoints))
		for n := range endpoints {
			names = append(names, n)
		}
		sort.Strings(names)
		for _, n := range names {
			fmt.Fprintf(&sb, "%s:\n  addr: %q\n  timeout: 30s\n", n, endpoints[n].Addr)
		}
		if len(names) == 0 {
			sb.WriteString("{}\n")
		}
		dir, err := os.MkdirTemp("", "c15fan")
		if err != nil {
			panic(err)
		}
		defer os.RemoveAll(dir)
		p := filepath.Join(dir, "endpoints.yaml")
		if err := os.WriteFile(p, []byte(sb.String()), 0o600); err != nil {
			panic(err)
		}
		q, err := apiclient.New(p)
		if err != nil {
			panic(err)
		}
		return q
	}
	n, err := strconv.Atoi(mc)
	if err != nil {
		panic("bad max concurrent")
	}
	return &apiclient.APIClientQuerier{APIEndpoints: endpoints, MaxConcurrent: n}
}

// c15ErrKind maps the error text of a failed host to the failure kind of the case language
func c15ErrKind(msg string) string {
	switch {
	case strings.Contains(msg, "couldn't find endpoint configuration"):
		return "unknown"
	case strings.Contains(msg, "connection refused"):
		return "refused"
	case strings.Contains(msg, "422") || strings.Contains(msg, "Unprocessable"):
		return "http422"
	case strings.Contains(msg, "this is not json") || strings.Contains(msg, "invalid character") || strings.Contains(msg, "readObjectStart") || strings.Contains(msg, "ReadObject") || strings.Contains(msg, "decode"):
		return "badjson"
	}
	return "other." + esc(msg)
}

func c15FanArgs(hostList hosts.Hosts) *query.Args {
	return &query.Args{
		Query:      "dport",
		Ifaces:     "eth0,eth1,eth2,eth3",
		Format:     "json",
		MaxMemPct:  60,
		NumResults: 1000,
		SortBy:     "bytes",
		First:      "1600000000",
		Last:       "1800000000",
		QueryHosts: strings.Join(hostList, ","),
	}
}

func c15RunFan(mc string, replies []c15Reply) string {
	endpoints, hostList := c15FanSetup(replies)
	querier := c15FanQuerier(mc, endpoints)
	ctx, cancel := context.WithCancel(context.Background())
	defer cancel()
	type chans struct {
		out <-chan *results.Result
		pan any
	}
	started := make(chan chans, 1)
	go func() {
		defer func() {
			if r := recover(); r != nil {
				started <- chans{pan: r}
			}
		}()
		out, _ := querier.Query(ctx, hostList, c15FanArgs(hostList))
		started <- chans{out: out}
	}()
	deadline := time.After(c15FanTimeout)
	var out <-chan *results.Result
	select {
	case c := <-started:
		if c.pan != nil {
			return "panic"
		}
		out = c.out
	case <-deadline:
		return "hang;-"
	}
	var entries []string
	state := "closed"
loop:
	for {
		select {
		case qr, open := <-out:
			if !open {
				break loop
			}
			if qr == nil {
				entries = append(entries, "nil")
				continue
			}
			if qr.Err() != nil {
				entries = append(entries, c15HostID(qr.Hostname)+":error:"+c15ErrKind(qr.Err().Error()))
			} else {
				entries = append(entries, fmt.Sprintf("%s:ok:%d", c15HostID(qr.Hostname), len(qr.Rows)))
			}
		case <-deadline:
			state = "hang"
			break loop
		}
	}
	sort.Strings(entries)
	return state + ";" + listField(entries)
}

func c15RunDistributed(mc, cfg string, replies []c15Reply) string {
	seen := map[int]bool{}
	for _, rp := range replies {
		if seen[rp.host] { // the resolver removes duplicate names: one endpoint cannot give two replies
			return "bad-args"
		}
		seen[rp.host] = true
	}
	endpoints, hostList := c15FanSetup(replies)
	querier := c15FanQuerier(mc, endpoints)
	stmt := c15Stmt(cfg)
	args := c15FanArgs(hostList)
	args.SortBy = strings.Split(cfg, ",")[0]
	args.SortAscending = stmt.SortAscending
	args.NumResults = stmt.NumResults
	switch strings.Split(cfg, ",")[1] {
	case "sum":
		args.Sum = true
	case "in":
		args.In = true
	case "out":
		args.Out = true
	case "both":
		args.In, args.Out = true, true
	}
	resolvers := hosts.NewResolverMap()
	resolvers.Set(stringresolver.Type, stringresolver.NewResolver(true))
	ctx, cancel := context.WithCancel(context.Background())
	defer cancel()
	type outcome struct {
		res *results.Result
		err error
		pan any
	}
	done := make(chan outcome, 1)
	go func() {
		defer func() {
			if r := recover(); r != nil {
				done <- outcome{pan: r}
			}
		}()
		res, err := gqdist.NewQueryRunner(resolvers, querier).Run(ctx, args)
		done <- outcome{res: res, err: err}
	}()
	select {
	case o := <-done:
		if o.pan != nil {
			return "panic"
		}
		if o.err != nil {
			if strings.Contains(o.err.Error(), "query for target hosts is empty") {
				return "err:no-hosts" // a distributed query needs at least one host
			}
			return "err:" + esc(o.err.Error())
		}
		if o.res != nil {
			for h, st := range o.res.HostsStatuses {
				if st.Code == "error" {
					st.Message = c15ErrKind(st.Message)
					o.res.HostsStatuses[h] = st
				}
			}
		}
		return c15ShowResult(o.res)
	case <-time.After(c15FanTimeout):
		return "hang"
	}
}

// ---------------------------------------------------------------- generator (fan / run)

// c15GenFanCases: seeded host sets for the querier's fan-out. Every MaxConcurrent class is visited
// in turn (0, negative, 1, 2, n-1, n, n+3, huge, default), the host set is drawn per case.
func c15GenFanCases(r *Rand, tier string) []Case {
	nFan, nRun, refusedBudget := 270, 180, 1
	if tier == "thorough" {
		nFan, nRun, refusedBudget = 4500, 3000, 6
	}
	var cs []Case
	mcClasses := []string{"0", "neg", "1", "2", "n-1", "n", "n+3", "huge", "default"}
	gen := func(k int, run bool) Case {
		nh := 1 + r.Intn(7)
		switch {
		case r.Chance(1, 25):
			nh = 0
		case r.Chance(1, 10):
			nh = 8 + r.Intn(8)
		}
		cls := mcClasses[k%len(mcClasses)]
		var mc string
		switch cls {
		case "0":
			mc = "0"
		case "neg":
			mc = strconv.Itoa(-1 - r.Intn(5))
			if r.Chance(1, 4) {
				mc = "-9223372036854775808"
			}
		case "1":
			mc = "1"
		case "2":
			mc = "2"
		case "n-1":
			mc = strconv.Itoa(nh - 1) // 0 or -1 for tiny host lists
		case "n":
			mc = strconv.Itoa(nh)
		case "n+3":
			mc = strconv.Itoa(nh + 3)
		case "huge":
			mc = strconv.Itoa(1000 + r.Intn(1000000))
		default:
			mc = "default"
		}
		base := int64(1700000000) - 1700000000%3600 + 3600*r.I64n(3)
		first := r.Intn(3)
		ids := make([]int, nh)
		for i := range ids {
			ids[i] = first + i
		}
		r.Shuffle(nh, func(a, b int) { ids[a], ids[b] = ids[b], ids[a] }) // the host list is not sorted
		var replies []string
		nErr, nRows := 0, 0
		for _, host := range ids {
			rp := c15GenReply(r, host, base, false, 8, 20)
			if strings.HasPrefix(rp, "E/") || r.Chance(1, 6) {
				kind := Pick(r, []string{"unknown", "unknown", "unknown", "http422", "badjson"})
				if refusedBudget > 0 && r.Chance(1, 40) {
					kind = "refused"
					refusedBudget--
				}
				rp = fmt.Sprintf("E/%d/%s/0", host, kind)
				nErr++
			} else if len(splitList(strings.Split(rp, "/")[9])) > 0 {
				nRows++
			}
			replies = append(replies, rp)
		}
		dup := false
		if !run && nh >= 2 && r.Chance(1, 12) { // the same host twice in the host list: two results
			replies = append(replies, replies[r.Intn(len(replies))])
			dup = true
		}
		class := fmt.Sprintf("mc=%s hosts=%d failed=%v", cls, len(replies), nErr > 0)
		if dup {
			class += " dup-host"
		}
		nt := len(replies) >= 2 && nRows >= 1
		if !run {
			return Case{Line: fmt.Sprintf("C15 fan %s %s", mc, semiField(replies)), Class: "fan " + class, NonTrivial: nt}
		}
		limit := 1000
		if r.Chance(1, 3) {
			limit = 1 + r.Intn(6)
		}
		cfg := fmt.Sprintf("%s,%s,0,%d,0,300", Pick(r, []string{"bytes", "packets"}), Pick(r, []string{"sum", "in", "out", "both"}), limit)
		return Case{Line: fmt.Sprintf("C15 run %s %s %s", mc, cfg, semiField(replies)), Class: "run " + class, NonTrivial: nt}
	}
	for k := 0; k < nFan; k++ {
		cs = append(cs, gen(k, false))
	}
	for k := 0; k < nRun; k++ {
		cs = append(cs, gen(k, true))
	}
	return cs
}
