//go:build verif_all || verif_c01

package main

import (
	"bytes"
	"fmt"
	"os"
	"path/filepath"
	"strconv"
	"strings"

	"github.com/els0r/goProbe/v4/pkg/goDB/encoder"
	"github.com/els0r/goProbe/v4/pkg/goDB/storage/gpfile"
	"github.com/els0r/goProbe/v4/pkg/types"
)

// C01 — blocks read back byte-for-byte: sessions of GPDir.WriteBlocks on one day directory,
// then the raw column files and a fresh reader's view are reported.

const c01Day = int64(1699920000) // 2023-11-14 00:00:00 UTC

func compressWith(name string, level int, data []byte) []byte {
	if name == "null" || len(data) == 0 {
		return data
	}
	e, err := encoder.New(encType(name))
	if err != nil {
		panic(err)
	}
	defer e.Close()
	if level > 0 {
		e.SetLevel(level)
	}
	var b bytes.Buffer
	if _, err := e.Compress(data, nil, &b); err != nil {
		panic(err)
	}
	return b.Bytes()
}

// findDayDir returns the directory name of the day (with suffix) below base/YYYY/MM
func findDayDir(base string, day int64) (monthPath, name string) {
	_ = filepath.WalkDir(base, func(p string, d os.DirEntry, err error) error {
		if err == nil && d.IsDir() && strings.HasPrefix(d.Name(), strconv.FormatInt(day, 10)) {
			monthPath, name = filepath.Dir(p), d.Name()
			return filepath.SkipAll
		}
		return nil
	})
	return
}

func c01ReaderView(base string, day int64) string {
	monthPath, name := findDayDir(base, day)
	if name == "" {
		return "blocks=- totals=0:0:0:0:0:0:0"
	}
	if _, err := os.Stat(filepath.Join(monthPath, name, ".blockmeta")); os.IsNotExist(err) {
		// the directory was created by an abandoned first session: nothing committed yet
		return "blocks=- totals=0:0:0:0:0:0:0"
	}
	_, suffix, err := gpfile.ExtractTimestampMetadataSuffix(name)
	if err != nil {
		return "err:dirname"
	}
	d := gpfile.NewDirReader(base, day, suffix)
	if err := d.Open(); err != nil {
		return "err:open"
	}
	defer d.Close()
	n := d.NBlocks()
	// pass 1: ascending, as a query reads
	view := make([][]string, n)
	raw := make([][][]byte, n)
	for i := 0; i < n; i++ {
		view[i] = make([]string, types.ColIdxCount)
		raw[i] = make([][]byte, types.ColIdxCount)
		for c := types.ColumnIndex(0); c < types.ColIdxCount; c++ {
			data, err := d.ReadBlockAtIndex(c, i)
			if err != nil {
				view[i][c] = "ERR"
				continue
			}
			raw[i][c] = append([]byte{}, data...)
			view[i][c] = hexBytes(data)
		}
	}
	// pass 2: "returned with exactly the bytes that were written" does not depend on what was read
	// before: a second reader reads every ordered pair of blocks (i then j, also backwards and skipping);
	// a block that comes back differently than in pass 1 is reported with what it came back as
	if n >= 2 && n <= 14 {
		d2 := gpfile.NewDirReader(base, day, suffix)
		if err := d2.Open(); err == nil {
			for i := 0; i < n; i++ {
				for j := 0; j < n; j++ {
					if i == j {
						continue
					}
					for c := types.ColumnIndex(0); c < types.ColIdxCount; c++ {
						_, _ = d2.ReadBlockAtIndex(c, i)
						data, err := d2.ReadBlockAtIndex(c, j)
						switch {
						case err != nil && view[j][c] != "ERR":
							view[j][c] = "ERR"
						case err == nil && view[j][c] != "ERR" && !bytes.Equal(data, raw[j][c]):
							view[j][c] = hexBytes(data)
						}
					}
				}
			}
			_ = d2.Close()
		}
	}
	var blocks []string
	for i := 0; i < n; i++ {
		bt := d.BlockTraffic[i]
		blocks = append(blocks, fmt.Sprintf("%d:%d:%d:%d:%s", d.BlockMetadata[0].BlockList[i].Timestamp, bt.NumV4Entries, bt.NumV6Entries, bt.NumDrops, strings.Join(view[i], "|")))
	}
	t, c := d.Metadata.Traffic, d.Metadata.Counts
	return fmt.Sprintf("blocks=%s totals=%d:%d:%d:%d:%d:%d:%d", listField(blocks), t.NumV4Entries, t.NumV6Entries, t.NumDrops, c.BytesRcvd, c.BytesSent, c.PacketsRcvd, c.PacketsSent)
}

func c01Run(f []string) string {
	// session i is written with encoder i mod n of the `+`-separated list (and the level at the same place)
	encNames := strings.Split(f[0], "+")
	var levels []int
	for _, l := range strings.Split(f[1], "+") {
		v, _ := strconv.Atoi(l)
		levels = append(levels, v)
	}
	base, err := os.MkdirTemp("", "verif-c01-")
	if err != nil {
		panic(err)
	}
	defer os.RemoveAll(base)
	for si, sess := range splitSemi(f[2]) {
		encName, level := encNames[si%len(encNames)], levels[si%len(levels)]
		d := gpfile.NewDirWriter(base, c01Day, gpfile.WithEncoderTypeLevel(encType(encName), level))
		if err := d.Open(); err != nil {
			return "err:open-writer"
		}
		failed := false
		for _, w := range splitList(sess) {
			p := strings.Split(w, "|")
			ts, _ := strconv.ParseInt(p[0], 10, 64)
			u := func(i int) uint64 { v, _ := strconv.ParseUint(p[i], 10, 64); return v }
			var cols [types.ColIdxCount][]byte
			for i := 0; i < int(types.ColIdxCount); i++ {
				dc := strings.Split(p[8+i], "/")
				cols[i] = unhex(dc[0])
			}
			if err := d.WriteBlocks(ts, gpfile.TrafficMetadata{NumV4Entries: u(1), NumV6Entries: u(2), NumDrops: u(3)},
				types.Counters{BytesRcvd: u(4), BytesSent: u(5), PacketsRcvd: u(6), PacketsSent: u(7)}, cols); err != nil {
				failed = true
				break
			}
		}
		if failed {
			// as DBWriter.Write does: return without Close (the column files stay open until GC;
			// close the raw files so that their content is on disk, without touching the metadata)
			for c := types.ColumnIndex(0); c < types.ColIdxCount; c++ {
				if gf, err := d.Column(c); err == nil && gf.RawFile() != nil {
					_ = gf.RawFile().Close()
				}
			}
			continue
		}
		if err := d.Close(); err != nil {
			return "err:close-writer"
		}
	}
	// raw files
	_, name := findDayDir(base, c01Day)
	var files []string
	for c := types.ColumnIndex(0); c < types.ColIdxCount; c++ {
		var b []byte
		if name != "" {
			mp, _ := findDayDir(base, c01Day)
			fn := filepath.Join(mp, name, types.ColumnFileNames[c]+gpfile.FileSuffix)
			if st, err := os.Stat(fn); err == nil && st.Size() > 64<<20 {
				return fmt.Sprintf("err:huge-column-file:%d", st.Size())
			}
			b, _ = os.ReadFile(fn)
		}
		files = append(files, hexBytes(b))
	}
	return "files=" + strings.Join(files, "|") + " " + c01ReaderView(base, c01Day)
}

func c01Data(r *Rand, big bool) []byte {
	sizes := []int{0, 0, 1, 7, 64, 300, 1000}
	if big {
		sizes = []int{4095, 4096, 4097, 5000, 8192, 8193, 12000, 20000}
	}
	n := Pick(r, sizes)
	b := make([]byte, n)
	switch r.Intn(4) {
	case 0: // zeros (highly compressible)
	case 1:
		copy(b, r.Bytes(n)) // incompressible
	case 2:
		copy(b[n/2:], r.Bytes(n-n/2)) // half / half
	default:
		for i := range b {
			b[i] = byte(i % 7)
		}
	}
	return b
}

func c01Gen(r *Rand, tier string) []Case {
	n := 120
	if tier == "thorough" {
		n = 6000
	}
	var cs []Case
	for i := 0; i < n; i++ {
		// one encoder for the whole day, or (1 in 3) sessions written with different encoders
		nenc := 1
		if r.Chance(1, 3) {
			nenc = 2 + r.Intn(2)
		}
		var encNames []string
		var levels []int
		for e := 0; e < nenc; e++ {
			encName := Pick(r, []string{"lz4", "lz4", "lz4", "zstd", "zstd", "null"})
			level := 0
			if encName == "lz4" {
				level = Pick(r, []int{0, 1, 4, 9, 12})
			} else if encName == "zstd" {
				level = Pick(r, []int{0, 1, 3, 6, 11, 19})
			}
			encNames = append(encNames, encName)
			levels = append(levels, level)
		}
		nsess := 1 + r.Intn(4)
		if nenc > 1 {
			nsess = nenc + r.Intn(3)
		}
		slot := 0
		// 1 in 5 histories lay out one column so that a later block starts exactly "raw size of the first
		// block" bytes after the first block (see below)
		aliasCol, aliasStep, aliasRaw, aliasFill := -1, 0, Pick(r, []int{300, 1000, 4096, 5000}), 0
		if r.Chance(1, 5) && encNames[0] != "null" {
			aliasCol = r.Intn(8)
		}
		var stored []int64 // timestamps of committed sessions
		var sess []string
		nbig, nfallbackBig := 0, 0
		for s := 0; s < nsess; s++ {
			nw := 1 + r.Intn(3) // (a session without writes is excluded: see DESIGN.md, C01 notes)
			var ws []string
			var mine []int64
			abandoned := false
			for w := 0; w < nw && !abandoned; w++ {
				if aliasCol >= 0 && aliasStep < 3 && (s > 0 || w > 0) {
					aliasStep++
				}
				slot += 1 + r.Intn(3)
				ts := c01Day + int64(slot)*300
				if len(stored)+len(mine) > 0 && r.Chance(1, 12) {
					// duplicate of a stored timestamp: rejected, the session is abandoned without Close
					// (other non-increasing timestamps are property C03's subject)
					ts = Pick(r, append(append([]int64{}, stored...), mine...))
					abandoned = true
				}
				mine = append(mine, ts)
				parts := []string{strconv.FormatInt(ts, 10),
					strconv.Itoa(r.Intn(1000)), strconv.Itoa(r.Intn(1000)), strconv.Itoa(r.Intn(50)),
					strconv.FormatInt(r.I64n(1<<40), 10), strconv.FormatInt(r.I64n(1<<40), 10), strconv.FormatInt(r.I64n(1<<30), 10), strconv.FormatInt(r.I64n(1<<30), 10)}
				bigCol := -1
				if r.Chance(2, 3) {
					bigCol = r.Intn(8)
				}
				for c := 0; c < 8; c++ {
					data := c01Data(r, c == bigCol || (tier == "thorough" && r.Chance(1, 10)))
					if c == aliasCol {
						// "aliasing" layout on one column: a compressible block of raw size R stored in k bytes,
						// then an incompressible filler of R-k bytes (stored raw), then a third block: it starts
						// exactly R bytes after the first one, where a reader that took the raw size for the
						// stored size would think it already is
						switch aliasStep {
						case 0:
							data = make([]byte, aliasRaw)
						case 1:
							data = r.Bytes(aliasFill)
						default:
							data = r.Bytes(64)
						}
					}
					comp := compressWith(encNames[s%nenc], levels[s%nenc], data)
					if c == aliasCol && aliasStep == 0 {
						aliasFill = aliasRaw - len(comp)
						if len(comp) > len(data) || aliasFill < 24 {
							aliasCol = -1 // (null encoder, or not compressible enough: no such layout)
						}
					}
					if len(data) > 4096 {
						nbig++
						if len(comp) > len(data) {
							nfallbackBig++
						}
					}
					parts = append(parts, hexBytes(data)+"/"+hexBytes(comp))
				}
				ws = append(ws, strings.Join(parts, "|"))
			}
			if !abandoned {
				stored = append(stored, mine...)
			}
			sess = append(sess, listField(ws))
		}
		var ls []string
		for _, l := range levels {
			ls = append(ls, strconv.Itoa(l))
		}
		cls := fmt.Sprintf("%s:sessions=%d:big-fallback=%v", strings.Join(encNames, "+"), nsess, nfallbackBig > 0)
		cs = append(cs, Case{Line: fmt.Sprintf("C01 %s %s %s", strings.Join(encNames, "+"), strings.Join(ls, "+"), semiField(sess)), Class: cls, NonTrivial: nbig > 0})
	}
	return cs
}

func init() {
	register(&Prop{
		ID:   "C01",
		Rule: "seeded histories of 1-4 open/WriteBlocks*/Close sessions on one day directory with lz4 (levels 0,1,4,9,12), zstd (0..19) or the null encoder — in 1 of 3 histories the sessions use 2-3 DIFFERENT encoders in turn (a day written by differently configured writers); per write 8 column payloads of sizes {0,1,7,64,300,1000} and one of {4095,4096,4097,5000,8192,8193,12000,20000} with contents zeros / random / half-random / periodic; 1 in 12 writes reuses a stored timestamp (rejected, session abandoned without Close). 1 in 5 histories lay out one column so that its third block starts exactly (raw size of the first block) bytes behind the first block. The raw column files and a fresh reader's view — read in ascending order and, by a second reader, as every ordered pair of blocks (backwards, skipping) — are compared byte-for-byte with the model. Non-trivial: at least one payload above the 4096-byte bufio threshold. Distinct = distinct case lines.",
		Gen:  c01Gen,
		Run:  c01Run,
	})
}
