//go:build verif_all || verif_c21

package main

import (
	"context"
	"errors"
	"fmt"
	"sort"
	"strconv"
	"strings"
	"sync"
	"time"

	"github.com/els0r/goProbe/v4/pkg/capture"
	"github.com/els0r/goProbe/v4/pkg/capture/capturetypes"
	"github.com/els0r/goProbe/v4/pkg/types/hashmap"
	"github.com/fako1024/gotools/link"
	slimcap "github.com/fako1024/slimcap/capture"
)

// C21 — packets seen while the capture is paused. Case (see lean/GoProbeModel/Spec/C21.lean):
//   C21 <page> <limit> <pkts> <events>
// The real capture loop Capture.process() / bufferPackets runs in its own goroutine on a scripted
// source. The source is a monitor: NextIPPacketZeroCopy blocks until the harness hands it a command
// (a packet, or "unblocked"), and the harness always waits until the loop is back inside
// NextIPPacketZeroCopy with nothing left to consume (or has reported a buffer overflow, after which
// it sits in ConsumeUnlockRequest) before it executes the next event. The interleaving of packet
// arrival with Lock()/Unlock() of the three kinds of lock holder is therefore the one written in
// the case, not one chosen by the Go scheduler.

type c21Cmd struct {
	unblock bool
	layer   []byte
	ptype   byte
	size    uint32
}

type c21Source struct {
	mu       sync.Mutex
	cond     *sync.Cond
	queue    []c21Cmd
	waiting  bool // the loop is inside NextIPPacketZeroCopy and the queue is empty
	closed   bool
	unblocks int // calls of Unblock() so far
	ovf      int // ErrLocalBufferOverflow errors received from the capture so far
	other    int // other errors
	ovfNew   bool
	timedOut bool
	errsDone bool
}

func newC21Source() *c21Source {
	s := &c21Source{}
	s.cond = sync.NewCond(&s.mu)
	return s
}

func (s *c21Source) NextIPPacketZeroCopy() (slimcap.IPLayer, slimcap.PacketType, uint32, error) {
	s.mu.Lock()
	defer s.mu.Unlock()
	for len(s.queue) == 0 && !s.closed {
		s.waiting = true
		s.cond.Broadcast()
		s.cond.Wait()
	}
	s.waiting = false
	if len(s.queue) == 0 {
		return nil, slimcap.PacketUnknown, 0, slimcap.ErrCaptureStopped
	}
	c := s.queue[0]
	s.queue = s.queue[1:]
	if c.unblock {
		return nil, slimcap.PacketUnknown, 0, slimcap.ErrCaptureUnblocked
	}
	return slimcap.IPLayer(c.layer), slimcap.PacketType(c.ptype), c.size, nil
}

func (s *c21Source) push(c c21Cmd) {
	s.mu.Lock()
	s.queue = append(s.queue, c)
	s.cond.Broadcast()
	s.mu.Unlock()
}

func (s *c21Source) Unblock() error {
	s.mu.Lock()
	s.queue = append(s.queue, c21Cmd{unblock: true})
	s.unblocks++
	s.cond.Broadcast()
	s.mu.Unlock()
	return nil
}

func (s *c21Source) Close() error {
	s.mu.Lock()
	s.closed = true
	s.cond.Broadcast()
	s.mu.Unlock()
	return nil
}

// settle waits until the loop has consumed everything it was given and is blocked again: inside
// NextIPPacketZeroCopy, or (ovfNew) in ConsumeUnlockRequest after reporting an overflow.
func (s *c21Source) settle(blocked bool) bool {
	s.mu.Lock()
	defer s.mu.Unlock()
	t := time.AfterFunc(20*time.Second, func() {
		s.mu.Lock()
		s.timedOut = true
		s.cond.Broadcast()
		s.mu.Unlock()
	})
	defer t.Stop()
	for {
		if s.timedOut {
			return false
		}
		if blocked || s.ovfNew {
			return true
		}
		if s.waiting && len(s.queue) == 0 {
			return true
		}
		s.cond.Wait()
	}
}

func (s *c21Source) waitUnblocks(n int) bool {
	s.mu.Lock()
	defer s.mu.Unlock()
	t := time.AfterFunc(20*time.Second, func() {
		s.mu.Lock()
		s.timedOut = true
		s.cond.Broadcast()
		s.mu.Unlock()
	})
	defer t.Stop()
	for s.unblocks < n && !s.timedOut {
		s.cond.Wait()
	}
	return !s.timedOut
}

func (s *c21Source) collect(errs <-chan error) {
	for err := range errs {
		s.mu.Lock()
		if errors.Is(err, capture.ErrLocalBufferOverflow) {
			s.ovf++
			s.ovfNew = true
		} else {
			s.other++
		}
		s.cond.Broadcast()
		s.mu.Unlock()
	}
	s.mu.Lock()
	s.errsDone = true
	s.cond.Broadcast()
	s.mu.Unlock()
}

func (s *c21Source) NextPayloadZeroCopy() ([]byte, slimcap.PacketType, uint32, error) {
	return nil, slimcap.PacketUnknown, 0, slimcap.ErrCaptureStopped
}
func (s *c21Source) NewPacket() slimcap.Packet { return nil }
func (s *c21Source) NextPacket(slimcap.Packet) (slimcap.Packet, error) {
	return nil, slimcap.ErrCaptureStopped
}
func (s *c21Source) NextPayload([]byte) ([]byte, byte, uint32, error) {
	return nil, 0, 0, slimcap.ErrCaptureStopped
}
func (s *c21Source) NextIPPacket(slimcap.IPLayer) (slimcap.IPLayer, slimcap.PacketType, uint32, error) {
	return nil, 0, 0, slimcap.ErrCaptureStopped
}
func (s *c21Source) NextPacketFn(func([]byte, uint32, slimcap.PacketType, byte) error) error {
	return slimcap.ErrCaptureStopped
}
func (s *c21Source) Stats() (slimcap.Stats, error) { return slimcap.Stats{}, nil }
func (s *c21Source) Link() *link.Link              { return &link.EmptyEthernetLink }

// ---------------------------------------------------------------- canonical output

func c21Cnt(processed uint64, pe capturetypes.ParsingErrTracker) string {
	return fmt.Sprintf("%d/%d/%d/%d", processed, pe[capturetypes.ErrnoPacketFragmentIgnore],
		pe[capturetypes.ErrnoInvalidIPHeader], pe[capturetypes.ErrnoPacketTruncated])
}

func c21Join(xs []string) string {
	if len(xs) == 0 {
		return "-"
	}
	sort.Strings(xs)
	return strings.Join(xs, ";")
}

func c21Flows(fl *capture.FlowLog) string {
	var xs []string
	for k, v := range fl.FlowsV4() {
		xs = append(xs, fmt.Sprintf("4/%s/%d/%d/%d/%d", hexBytes([]byte(k)), v.BytesRcvd, v.BytesSent, v.PacketsRcvd, v.PacketsSent))
	}
	for k, v := range fl.FlowsV6() {
		xs = append(xs, fmt.Sprintf("6/%s/%d/%d/%d/%d", hexBytes([]byte(k)), v.BytesRcvd, v.BytesSent, v.PacketsRcvd, v.PacketsSent))
	}
	return c21Join(xs)
}

func c21Agg(agg *hashmap.AggFlowMap) string {
	if agg == nil {
		return "-"
	}
	var xs []string
	one := func(m *hashmap.Map, fam string) {
		if m == nil {
			return
		}
		for it := m.Iter(); it.Next(); {
			v := it.Val()
			xs = append(xs, fmt.Sprintf("%s/%s/%d/%d/%d/%d", fam, hexBytes(it.Key()), v.BytesRcvd, v.BytesSent, v.PacketsRcvd, v.PacketsSent))
		}
	}
	one(agg.PrimaryMap, "4")
	one(agg.SecondaryMap, "6")
	return c21Join(xs)
}

// c21Act is what the Manager does between capLock.Lock() and capLock.Unlock()
func c21Act(vc *capture.VerifCapture, kind byte) string {
	ctx := context.Background()
	switch kind {
	case 's': // Manager.Status
		st, err := vc.Status()
		if err != nil {
			return "Serr"
		}
		return "S" + c21Cnt(st.Processed, st.ParsingErrors)
	case 'q': // Manager.GetFlowMaps
		snap := c21Flows(vc.FlowLog())
		return "Q" + snap + "|" + c21Agg(vc.FlowMap(ctx))
	default: // Manager.rotate (write-out)
		snap := c21Flows(vc.FlowLog())
		agg, st := vc.RotateWithStatus(ctx)
		if st == nil {
			return "Werr"
		}
		return "W" + c21Cnt(st.Processed, st.ParsingErrors) + "|" + snap + "|" + c21Agg(agg)
	}
}

type c21Pkt struct {
	ptype byte
	size  uint32
	layer []byte
}

func c21ParsePkts(s string) ([]c21Pkt, bool) {
	var out []c21Pkt
	for _, f := range splitList(s) {
		p := strings.Split(f, ":")
		if len(p) != 3 {
			return nil, false
		}
		t, e1 := strconv.ParseUint(p[0], 10, 8)
		sz, e2 := strconv.ParseUint(p[1], 10, 32)
		if e1 != nil || e2 != nil {
			return nil, false
		}
		out = append(out, c21Pkt{ptype: byte(t), size: uint32(sz), layer: exactC21(unhex(p[2]))})
	}
	return out, true
}

func exactC21(b []byte) []byte {
	c := make([]byte, len(b))
	copy(c, b)
	return c[:len(c):len(c)]
}

// c21Close mirrors C21.closing: the `U`s missing at the end of the schedule
func c21Close(evs []string) []string {
	held, pend := false, false
	for _, e := range evs {
		switch {
		case strings.HasPrefix(e, "L"):
			if !held {
				held = true
			} else if !pend {
				pend = true
			}
		case e == "U":
			if held {
				held, pend = pend, false
			}
		}
	}
	if held {
		evs = append(evs, "U")
		if pend {
			evs = append(evs, "U")
		}
	}
	return evs
}

func c21Run(f []string) string {
	if len(f) != 4 {
		return "err:bad-op"
	}
	page, e1 := strconv.Atoi(f[0])
	limit, e2 := strconv.Atoi(f[1])
	pkts, ok := c21ParsePkts(f[2])
	if e1 != nil || e2 != nil || !ok {
		return "err:bad-args"
	}
	if page != capture.VerifInitialBufferSize() {
		return "err:page-size-differs"
	}
	evs := c21Close(splitList(f[3]))

	src := newC21Source()
	pool := capture.NewLocalBufferPool(2, limit)
	vc, err := capture.VerifStartCapture(src, pool)
	if err != nil {
		return "err:start"
	}
	go src.collect(vc.Errs)
	stuck := func() string {
		// leave the capture goroutine behind; it is blocked and owns nothing shared
		return "err:stuck"
	}
	if !src.settle(false) {
		return stuck()
	}

	var toks []string
	held, blocked := false, false
	var pendDone chan string // result of the waiting holder's action, once it was granted
	for _, e := range evs {
		switch {
		case strings.HasPrefix(e, "p"):
			idx, n := 0, 1
			parts := strings.Split(e[1:], "x")
			idx, e1 = strconv.Atoi(parts[0])
			if len(parts) == 2 {
				n, e2 = strconv.Atoi(parts[1])
			}
			if e1 != nil || e2 != nil || len(parts) > 2 || idx < 0 || idx >= len(pkts) {
				return "err:bad-args"
			}
			k, o := 0, false
			for j := 0; j < n && !blocked; j++ {
				p := pkts[idx]
				src.push(c21Cmd{layer: p.layer, ptype: p.ptype, size: uint32(uint64(p.size) + uint64(j))})
				k++
				if !src.settle(false) {
					return stuck()
				}
				src.mu.Lock()
				if src.ovfNew {
					src.ovfNew = false
					o, blocked = true, true
				}
				src.mu.Unlock()
			}
			t := "d" + strconv.Itoa(k)
			if o {
				t += "o"
			}
			toks = append(toks, t)
		case e == "Lw" || e == "Ls" || e == "Lq":
			kind := e[1]
			if !held {
				if err := vc.Lock(); err != nil {
					return "err:lock"
				}
				held, blocked = true, false
				toks = append(toks, "g"+c21Act(vc, kind))
				if !src.settle(false) {
					return stuck()
				}
			} else if pendDone == nil {
				src.mu.Lock()
				n := src.unblocks
				src.mu.Unlock()
				pendDone = make(chan string, 1)
				go func(done chan string) {
					if err := vc.Lock(); err != nil {
						done <- "err:lock"
						return
					}
					done <- c21Act(vc, kind)
				}(pendDone)
				// the request is in the channel once Lock() has called Unblock()
				if !src.waitUnblocks(n+1) || !src.settle(blocked) {
					return stuck()
				}
				toks = append(toks, "w")
			} else {
				toks = append(toks, "-")
			}
		case e == "U":
			if !held {
				toks = append(toks, "-")
				break
			}
			blocked = false
			if err := vc.Unlock(); err != nil {
				return "err:unlock"
			}
			if pendDone != nil {
				var obs string
				select {
				case obs = <-pendDone:
				case <-time.After(20 * time.Second):
					return stuck()
				}
				if strings.HasPrefix(obs, "err:") {
					return obs
				}
				pendDone = nil
				toks = append(toks, "u+"+obs)
			} else {
				held = false
				toks = append(toks, "u")
			}
			if !src.settle(false) {
				return stuck()
			}
		case e == "b":
			src.push(c21Cmd{unblock: true})
			if !src.settle(blocked) {
				return stuck()
			}
			toks = append(toks, ".")
		default:
			return "err:bad-args"
		}
	}
	if err := vc.Close(); err != nil {
		return "err:close"
	}
	// wait for the error channel to be closed (process() has returned)
	src.mu.Lock()
	for !src.errsDone {
		src.cond.Wait()
	}
	ovf, other := src.ovf, src.other
	src.mu.Unlock()
	st := vc.Stats()
	toks = append(toks, fmt.Sprintf("fin:%s|%s|E%d/%d", c21Cnt(st.Processed, st.ParsingErrors), c21Flows(vc.FlowLog()), ovf, other))
	return strings.Join(toks, " ")
}

// ---------------------------------------------------------------- generation

type c21Conv struct {
	v6       bool
	sip, dip []byte
	sp, dp   uint16
	proto    byte
}

// c21Layer builds an IP layer of n bytes (at least header + 40 are generated, then cut) of the
// conversation (rev: travelling the other way); aux = TCP flags / ICMP type
func c21Layer(r *Rand, c c21Conv, rev bool, aux byte, n int) []byte {
	sip, dip, sp, dp := c.sip, c.dip, c.sp, c.dp
	if rev {
		sip, dip, sp, dp = c.dip, c.sip, c.dp, c.sp
	}
	h := 20
	if c.v6 {
		h = 40
	}
	m := n
	if m < h+40 {
		m = h + 40
	}
	b := r.Bytes(m)
	if c.v6 {
		b[0] = 0x60 | b[0]&0x0f
		b[6] = c.proto
		copy(b[8:24], sip)
		copy(b[24:40], dip)
	} else {
		b[0] = 0x45
		b[6], b[7] = 0x40, 0
		b[9] = c.proto
		copy(b[12:16], sip)
		copy(b[16:20], dip)
	}
	icmp := byte(1)
	if c.v6 {
		icmp = 58
	}
	switch c.proto {
	case 6:
		b[h], b[h+1], b[h+2], b[h+3] = byte(sp>>8), byte(sp), byte(dp>>8), byte(dp)
		b[h+13] = aux
	case icmp:
		b[h] = aux
	default:
		b[h], b[h+1], b[h+2], b[h+3] = byte(sp>>8), byte(sp), byte(dp>>8), byte(dp)
	}
	return b[:n]
}

func c21Gen(r *Rand, tier string) []Case {
	page := capture.VerifInitialBufferSize()
	nSched, nOvf := 6000, 1000
	if tier == "thorough" {
		nSched, nOvf = 200000, 30000
	}
	var cs []Case
	ptypes := []byte{0, 0, 1, 2, 3, 4, 4, 4, 5, 255}
	sizes := []uint32{0, 1, 40, 60, 64, 1500, 9000, 65535, 65536, 1 << 24, 0x7fffffff, 0xfffffff0, 0xffffffff}
	ports := []uint16{0, 22, 53, 80, 443, 445, 1024, 8080, 32768, 40000, 50000, 65535}
	addr := func(v6 bool) []byte {
		n := 4
		if v6 {
			n = 16
		}
		a := r.Bytes(n)
		if r.Chance(1, 8) {
			for i := range a {
				a[i] = 0xff
			}
		}
		return a
	}
	mkPkts := func(nConv int, allowBad bool) []string {
		var out []string
		for i := 0; i < nConv; i++ {
			v6 := r.Bool()
			icmp := byte(1)
			if v6 {
				icmp = 58
			}
			c := c21Conv{v6: v6, sip: addr(v6), dip: addr(v6), sp: Pick(r, ports), dp: Pick(r, ports),
				proto: Pick(r, []byte{6, 6, 17, 17, icmp, 50, 47})}
			h := 20
			if v6 {
				h = 40
			}
			dirs := 1 + r.Intn(2)
			for d := 0; d < dirs; d++ {
				l := c21Layer(r, c, d == 1, Pick(r, []byte{0, 0x02, 0x12, 0x10, 0x18, 8, 128, 129}), h+14+r.Intn(12))
				out = append(out, fmt.Sprintf("%d:%d:%s", Pick(r, ptypes), Pick(r, sizes), hexBytes(l)))
			}
		}
		if allowBad {
			for i, nb := 0, r.Intn(4); i < nb; i++ {
				var l []byte
				switch r.Intn(6) {
				case 0: // empty layer
				case 1: // neither IPv4 nor IPv6
					l = r.Bytes(1 + r.Intn(40))
					l[0] = byte(Pick(r, []int{0, 1, 5, 7, 15}))<<4 | l[0]&0x0f
				case 2: // truncated header
					v6 := r.Bool()
					l = r.Bytes(r.Intn(20))
					if len(l) > 0 {
						l[0] = 0x45
						if v6 {
							l[0] = 0x60
						}
					}
				case 3: // IPv4 fragment
					c := c21Conv{sip: addr(false), dip: addr(false), sp: Pick(r, ports), dp: Pick(r, ports), proto: 17}
					l = c21Layer(r, c, false, 0, 40)
					l[6], l[7] = byte(r.Intn(32)), byte(1+r.Intn(255))
				case 4: // truncated transport header
					v6 := r.Bool()
					c := c21Conv{v6: v6, sip: addr(v6), dip: addr(v6), sp: Pick(r, ports), dp: Pick(r, ports), proto: 6}
					h := 20
					if v6 {
						h = 40
					}
					l = c21Layer(r, c, false, 0, h+r.Intn(13))
				default: // arbitrary bytes
					l = r.Bytes(r.Intn(81))
				}
				out = append(out, fmt.Sprintf("%d:%d:%s", Pick(r, ptypes), Pick(r, sizes), hexBytes(l)))
			}
		}
		return out
	}
	holders := []string{"Lw", "Ls", "Lq"}
	add := func(limit int, pkts, evs []string, class string) {
		nt, held := false, false
		for _, e := range evs {
			switch {
			case strings.HasPrefix(e, "L"):
				held = true
			case e == "U":
				held = false
			case strings.HasPrefix(e, "p") && held:
				nt = true
			}
		}
		cs = append(cs, Case{Line: fmt.Sprintf("C21 %d %d %s %s", page, limit, listField(pkts), listField(evs)), Class: class, NonTrivial: nt})
	}
	limits := []int{1, 64, page - 1, page, page + 1, page + 20, page + 21, page + 44, page + 45, 2 * page, 2*page + 1, 3 * page, 1 << 20}

	// A. random schedules of up to 60 events
	for i := 0; i < nSched; i++ {
		pkts := mkPkts(1+r.Intn(4), true)
		var evs []string
		n := 5 + r.Intn(56)
		for len(evs) < n {
			switch x := r.Intn(20); {
			case x < 11:
				evs = append(evs, "p"+strconv.Itoa(r.Intn(len(pkts))))
			case x < 12:
				evs = append(evs, fmt.Sprintf("p%dx%d", r.Intn(len(pkts)), 2+r.Intn(6)))
			case x < 15:
				evs = append(evs, Pick(r, holders))
			case x < 18:
				evs = append(evs, "U")
			default:
				evs = append(evs, "b")
			}
		}
		add(Pick(r, limits), pkts, evs, "schedule")
	}
	// B. every holder kind x IPv4 / IPv6: one packet before, one while paused, the answer after
	for _, h := range holders {
		for _, v6 := range []bool{false, true} {
			c := c21Conv{v6: v6, sip: addr(v6), dip: addr(v6), sp: 40000, dp: 443, proto: 6}
			hl := 20
			if v6 {
				hl = 40
			}
			pk := []string{
				fmt.Sprintf("0:100:%s", hexBytes(c21Layer(r, c, false, 0x02, hl+20))),
				fmt.Sprintf("4:1500:%s", hexBytes(c21Layer(r, c, true, 0x12, hl+20))),
			}
			add(1<<20, pk, []string{"p0", h, "p1", "p0", "U", "p1", "Lq", "U"}, "basic")
			add(1<<20, pk, []string{h, "p1", "Lq", "p0", "U", "p1", "U", "p0"}, "basic-waiting")
		}
	}
	// C. overflow: more packets in one pause than the buffer may hold
	for i := 0; i < nOvf; i++ {
		pkts := mkPkts(1+r.Intn(3), r.Chance(1, 3))
		limit := Pick(r, limits[:9])
		capBytes := page
		if limit > capBytes {
			capBytes = limit
		}
		var evs []string
		for c, nc := 0, 1+r.Intn(3); c < nc; c++ {
			if r.Bool() {
				evs = append(evs, "p"+strconv.Itoa(r.Intn(len(pkts))))
			}
			evs = append(evs, Pick(r, holders))
			// enough 21-byte records to pass the limit in most cases
			total := capBytes/21 + 5 - r.Intn(capBytes/21/2+1)
			for total > 0 {
				n := 1 + r.Intn(90)
				if n > total {
					n = total
				}
				evs = append(evs, fmt.Sprintf("p%dx%d", r.Intn(len(pkts)), n))
				total -= n
				if r.Chance(1, 10) {
					evs = append(evs, Pick(r, []string{"b", Pick(r, holders)}))
				}
			}
			if r.Chance(1, 2) {
				evs = append(evs, "p"+strconv.Itoa(r.Intn(len(pkts)))) // not offered after an overflow
			}
			evs = append(evs, "U")
			if r.Chance(1, 2) {
				evs = append(evs, "p"+strconv.Itoa(r.Intn(len(pkts))))
			}
		}
		add(limit, pkts, evs, "overflow")
	}
	return cs
}

func init() {
	register(&Prop{
		ID:       "C21",
		Rule:     "A case is a set of packet templates (IP layers of 1-4 seeded conversations, IPv4 and IPv6, TCP/UDP/ICMP/ESP/GRE, one or both directions, packet types incl. outgoing, sizes incl. 0 and 2^32-1; plus malformed templates: empty layer, version nibble that is not 4/6, truncated IP or transport header, IPv4 non-first fragment, arbitrary bytes), a local-buffer size limit (1, 64, page-1 … page+45, 2-3 pages, 1 MiB) and a schedule of up to 60 events (overflow cases: up to ~250 packets per pause in run-length groups): packet arrival, lock request by a write-out (rotate + status) / status call / live query, unlock, spurious unblock; lock requests while the lock is held wait. The REAL Capture.process()/bufferPackets loop runs on a scripted source that hands out exactly one command per NextIPPacketZeroCopy call and reports when the loop is blocked again, so the harness — not the Go scheduler — fixes where Lock()/Unlock() (the real ThreePointLock, the real status()/flowMap()/rotate() through the verif hook) fall relative to packet arrival. Observed: what every holder sees (counters, flow log, aggregated map), the final counters and flow log, the errors on the capture's error channel. Non-trivial: at least one packet is scheduled while the lock is held. Distinct = distinct case lines.",
		Gen:      c21Gen,
		Run:      c21Run,
		Parallel: 4,
	})
}
