//go:build verif_all || verif_c16

package main

import (
	"context"
	"fmt"
	"io"
	"os"
	"path/filepath"
	"regexp"
	"strings"

	"github.com/els0r/goProbe/v4/pkg/goDB/engine"
	"github.com/els0r/goProbe/v4/pkg/query"
	"github.com/els0r/goProbe/v4/pkg/types"
)

// C16 — interface selection: parseIfaceListWithCommaSeparatedString / parseIfaceListWithRegex
// (through the verif hook) and the same selection observed at engine level
// (QueryRunner.Run on a scratch database directory that only contains interface directories,
// observed at Result.Summary.Interfaces).
//
// wire:  C16 list   <existing> <arg>
//        C16 regex  <existing> <arg> <re>
//        C16 engine <existing> <arg> <re>
// <existing>: comma list of %-escaped names ("-" = none); <arg>: the interface argument, split at
// commas, every element %-escaped ("-" = empty element); <re>: verdict of Go's regexp library on
// the argument, computed here independently of the code under test: "form" (not /…/), "bad" (does
// not compile), or one 0/1 per existing interface; "-" when not applicable.

type c16Lister []string

func (l c16Lister) ListInterfaces() ([]string, error) { return append([]string(nil), l...), nil }

var _ types.InterfaceLister = c16Lister(nil)

func c16EncArg(arg string) string {
	if arg == "" {
		return "-"
	}
	parts := strings.Split(arg, ",")
	for i, p := range parts {
		parts[i] = esc(p)
	}
	return strings.Join(parts, ",")
}

func c16DecArg(f string) string {
	parts := splitList(f)
	for i, p := range parts {
		parts[i] = unesc(p)
	}
	return strings.Join(parts, ",")
}

func c16EncNames(ns []string) string {
	out := make([]string, len(ns))
	for i, n := range ns {
		out[i] = esc(n)
	}
	return listField(out)
}

func c16DecNames(f string) []string {
	parts := splitList(f)
	for i, p := range parts {
		parts[i] = unesc(p)
	}
	return parts
}

// c16ReInfo asks Go's regexp library (not the code under test) about the argument.
func c16ReInfo(existing []string, arg string, engineLevel bool) string {
	if engineLevel && !(strings.HasPrefix(arg, "/") && strings.HasSuffix(arg, "/") && len(arg) > 2) {
		return "-"
	}
	if len(arg) < 2 || arg[0] != '/' || arg[len(arg)-1] != '/' || strings.Contains(arg[1:len(arg)-1], "\n") {
		return "form"
	}
	re, err := regexp.Compile(arg[1 : len(arg)-1])
	if err != nil {
		return "bad"
	}
	if engineLevel {
		// Args.Prepare compiles the argument including its slashes
		if _, err := regexp.Compile(arg); err != nil {
			return "bad"
		}
	}
	if len(existing) == 0 {
		return "-"
	}
	var b strings.Builder
	for _, n := range existing {
		if re.MatchString(n) {
			b.WriteByte('1')
		} else {
			b.WriteByte('0')
		}
	}
	return b.String()
}

func c16Err(err error) string {
	m := err.Error()
	switch {
	case strings.Contains(m, "no interface(s) specified"):
		return "err:empty-arg"
	case strings.Contains(m, "contains empty interface name"):
		return "err:empty-name"
	case strings.Contains(m, "` is invalid"):
		return "err:invalid-name"
	case strings.Contains(m, "interface regexp is empty"):
		return "err:regexp-empty"
	case strings.Contains(m, "unexpected match count"):
		return "err:regexp-form"
	case strings.Contains(m, "error parsing regexp"):
		return "err:regexp-compile"
	}
	return "err:other"
}

var (
	c16Root string
	c16DBs  = map[string]string{}
)

func c16DB(existing []string) (string, error) {
	key := strings.Join(existing, "\x00")
	if d, ok := c16DBs[key]; ok {
		return d, nil
	}
	d := filepath.Join(c16Root, fmt.Sprintf("db%d", len(c16DBs)))
	if err := os.MkdirAll(d, 0o755); err != nil {
		return "", err
	}
	for _, n := range existing {
		if err := os.Mkdir(filepath.Join(d, n), 0o755); err != nil {
			return "", err
		}
	}
	c16DBs[key] = d
	return d, nil
}

func c16Run(f []string) string {
	existing := c16DecNames(f[1])
	arg := c16DecArg(f[2])
	switch f[0] {
	case "list":
		r, err := engine.VerifParseIfaceList(c16Lister(existing), arg)
		if err != nil {
			return c16Err(err)
		}
		return c16EncNames(r)
	case "regex":
		r, err := engine.VerifParseIfaceRegex(c16Lister(existing), arg)
		if err != nil {
			return c16Err(err)
		}
		return c16EncNames(r)
	case "engine":
		db, err := c16DB(existing)
		if err != nil {
			return "harness-error:" + esc(err.Error())
		}
		a := query.NewArgs("sip", arg, query.WithDirectionSum(), query.WithFirst("1456428000"), query.WithLast("1456473000"),
			query.WithNumResults(query.MaxResults), query.WithFormat(types.FormatJSON)).AddOutputs(io.Discard)
		res, err := engine.NewQueryRunner(db).Run(context.Background(), a)
		if err != nil {
			switch {
			case strings.Contains(err.Error(), "failed to prepare query statement"):
				return "err:rejected"
			case strings.Contains(err.Error(), "no interfaces provided"):
				return "err:no-interfaces"
			}
			return "err:other"
		}
		if res == nil {
			return "err:nil-result"
		}
		return c16EncNames(res.Summary.Interfaces)
	}
	return "bad-op"
}

var c16Small = []string{"a", "b", "c", "any", "!a", "!b", "!zz"}

// pool for the seeded part: existing interfaces are drawn from c16Names, list elements from
// names, their negations, spellings of "any" and names that never exist
var c16Names = []string{"a", "b", "c", "eth0", "eth1", "eth2", "wlan0", "lo", "t4", "any", "x.y:z_w-1", "abcdefghijklmno", "ANY", "br-0", "many1", "company0", "anyx", "xANY"}
var c16Unknown = []string{"zz", "eth9", "nope", "Any", "aNy", "a.b"}
var c16Bad = []string{"", " ", " eth2", "!", "!!a", "a b", "eth/0", "abcdefghijklmnop", "!abcdefghijklmnop", "ä", "a!", "/a/", "a\n", "\xff", "%41", "-"}
var c16Regexps = []string{
	"/a/", "/^a$/", "/eth[0-2]/", "/eth[0-2]|wlan0|t4/", "/^(a|b)$/", "/.*/", "/^$/", "/[/", "/(/", "/)/", "//", "/", "", "abc", "/abc",
	"abc/", "/a\nb/", "//eth//", "/a{1,2}/", "/\\/", "/?/", "/*/", "/{2}/", "/^eth/", "/0$/", "/[a-c]/", "/^[^e]/", "/(?i)ANY/", "/any/", "/\\./",
	"/x.y:z_w-1/", "/^.{1,3}$/", "/e|l/", "/a**/", "/\\d/", "/lo|/", "/^(eth|wlan)\\d$/", "/,/", "/a,b/", "/ /", "/ü/",
}

func c16Subsets(names []string) [][]string {
	var out [][]string
	for m := 0; m < 1<<len(names); m++ {
		var s []string
		for i, n := range names {
			if m&(1<<i) != 0 {
				s = append(s, n)
			}
		}
		out = append(out, s)
	}
	return out
}

// c16Features: is the argument well-formed, and is it non-trivial: a negation that actually removes
// an interface that would otherwise be selected, together with at least one of {repeated element,
// any, a name that does not exist}
func c16Features(existing, toks []string) (nontrivial, valid bool) {
	valid = true
	seen := map[string]bool{}
	exists := map[string]bool{}
	for _, e := range existing {
		exists[e] = true
	}
	listed := map[string]bool{}
	var rep, unk, anyv, hit bool
	for _, t := range toks {
		if types.ValidateIfaceName(t) != nil {
			valid = false
		}
		if seen[t] {
			rep = true
		}
		seen[t] = true
		switch {
		case strings.HasPrefix(t, "!"):
			if !exists[t[1:]] {
				unk = true
			}
		case strings.EqualFold(t, "any"):
			anyv = true
		default:
			listed[t] = true
			if !exists[t] {
				unk = true
			}
		}
	}
	for _, t := range toks {
		if strings.HasPrefix(t, "!") && exists[t[1:]] && (anyv || listed[t[1:]]) {
			hit = true
		}
	}
	return hit && (rep || unk || anyv), valid
}

func c16ListCase(op string, existing, toks []string) Case {
	arg := strings.Join(toks, ",")
	nt, valid := c16Features(existing, toks)
	cls := fmt.Sprintf("%s:len=%d", op, len(toks))
	if len(toks) > 6 {
		cls = op + ":len>6"
	}
	if !valid || arg == "" {
		cls = op + ":malformed"
	}
	line := fmt.Sprintf("C16 %s %s %s", op, c16EncNames(existing), c16EncArg(arg))
	if op == "engine" {
		line += " " + c16ReInfo(existing, arg, true)
	}
	return Case{Line: line, Class: cls, NonTrivial: valid && arg != "" && nt}
}

func c16RegexCase(op string, existing []string, arg string) Case {
	re := c16ReInfo(existing, arg, op == "engine")
	cls := op + ":regexp"
	if re == "bad" || re == "form" {
		cls = op + ":regexp-malformed"
	}
	nt := strings.Contains(re, "0") && strings.Contains(re, "1")
	if op == "engine" && re == "-" && len(existing) > 0 {
		cls = "engine:malformed"
		nt = false
	}
	return Case{Line: fmt.Sprintf("C16 %s %s %s %s", op, c16EncNames(existing), c16EncArg(arg), re), Class: cls, NonTrivial: nt}
}

func c16Gen(r *Rand, tier string) []Case {
	var cs []Case
	abc := c16Subsets([]string{"a", "b", "c"})
	// 1. exhaustive small scope through the hook: all lists of length <= maxLen over c16Small x all
	//    subsets of {a,b,c}
	maxLen, engLen, nRand, nEng := 5, 2, 3000, 300
	if tier == "thorough" {
		maxLen, engLen, nRand, nEng = 6, 3, 300000, 3000
	}
	var rec func(toks []string, op string, lim int)
	rec = func(toks []string, op string, lim int) {
		if len(toks) > 0 {
			for _, ex := range abc {
				cs = append(cs, c16ListCase(op, ex, toks))
			}
		}
		if len(toks) == lim {
			return
		}
		for _, t := range c16Small {
			rec(append(toks[:len(toks):len(toks)], t), op, lim)
		}
	}
	rec(nil, "list", maxLen)
	// 2. the same small scope at engine level (shorter lists: a query costs milliseconds)
	rec(nil, "engine", engLen)

	pickExisting := func(fsSafe bool) []string {
		var ex []string
		p := 2 + r.Intn(4)
		for _, n := range c16Names {
			if r.Intn(6) < p {
				ex = append(ex, n)
			}
		}
		if !fsSafe && r.Chance(1, 10) {
			ex = append(ex, "!a") // a directory may be called like this; it can never be listed positively
		}
		r.Shuffle(len(ex), func(i, j int) { ex[i], ex[j] = ex[j], ex[i] })
		return ex
	}
	pickToks := func(ex []string, malformed bool) []string {
		n := 1 + r.Intn(8)
		if r.Chance(1, 4) {
			n = 6 + r.Intn(35)
		}
		// a small working set makes repetitions and negations of listed names likely
		var ws []string
		for i := 0; i < 1+r.Intn(5); i++ {
			switch r.Intn(10) {
			case 0:
				ws = append(ws, Pick(r, c16Unknown))
			case 1:
				ws = append(ws, Pick(r, c16Names))
			default:
				if len(ex) > 0 {
					ws = append(ws, Pick(r, ex))
				} else {
					ws = append(ws, Pick(r, c16Names))
				}
			}
		}
		var toks []string
		for i := 0; i < n; i++ {
			t := Pick(r, ws)
			switch r.Intn(12) {
			case 0, 1, 2, 3:
				t = "!" + strings.TrimPrefix(t, "!")
			case 4:
				t = Pick(r, []string{"any", "ANY", "Any", "!any"})
			}
			toks = append(toks, t)
		}
		if malformed {
			for k := 0; k < 1+r.Intn(2); k++ {
				i := r.Intn(len(toks) + 1)
				toks = append(toks[:i:i], append([]string{Pick(r, c16Bad)}, toks[i:]...)...)
			}
		}
		return toks
	}
	// 3. seeded longer lists through the hook; 1 in 6 malformed
	for i := 0; i < nRand; i++ {
		ex := pickExisting(false)
		cs = append(cs, c16ListCase("list", ex, pickToks(ex, r.Chance(1, 6))))
	}
	cs = append(cs, c16ListCase("list", []string{"a"}, []string{""}))
	// 4. regexp arguments through the hook: every pattern of the table x a few interface sets, plus
	//    patterns assembled from the table's pieces
	atoms := []string{"a", "b", "eth", "[0-2]", "\\d", ".", ".*", "^", "$", "|", "(", ")", "lo", "wlan0", "?", "+", "[", "any", "(?i)"}
	randRe := func() string {
		if r.Chance(2, 3) {
			return Pick(r, c16Regexps)
		}
		var b strings.Builder
		for k := 0; k < 1+r.Intn(5); k++ {
			b.WriteString(Pick(r, atoms))
		}
		return "/" + b.String() + "/"
	}
	for _, re := range c16Regexps {
		cs = append(cs, c16RegexCase("regex", []string{"eth0", "wlan0", "eth2", "eth3", "t4", "a", "lo"}, re))
		cs = append(cs, c16RegexCase("regex", nil, re))
	}
	for i := 0; i < nRand/6; i++ {
		cs = append(cs, c16RegexCase("regex", pickExisting(false), randRe()))
	}
	// 5. engine level, seeded: lists (1 in 6 malformed) and regexps on scratch databases
	for i := 0; i < nEng; i++ {
		ex := pickExisting(true)
		if r.Chance(1, 3) {
			cs = append(cs, c16RegexCase("engine", ex, randRe()))
		} else {
			cs = append(cs, c16ListCase("engine", ex, pickToks(ex, r.Chance(1, 6))))
		}
	}
	return cs
}

func init() {
	register(&Prop{
		ID: "C16",
		Rule: "exhaustive: every list of length 1..5 (thorough 1..6) over {a,b,c,any,!a,!b,!zz} x every subset of existing interfaces {a,b,c} through the verif hook, and of length 1..2 (thorough 1..3) through QueryRunner.Run on scratch database directories; seeded: longer lists (up to 40 elements) over 18 existing (incl. names that merely contain 'any') / 6 unknown names, their negations and spellings of 'any', 1 in 6 with a malformed element (empty, blank, '!', '!!a', 16 characters, non-ASCII, slash, newline); regexp arguments from a table of 41 patterns (valid, not compiling, not of the form /../) and random concatenations of pattern pieces, each with the regexp library's own match verdict per interface. Non-trivial: a well-formed list in which a negation removes an interface that would otherwise be selected and that also has a repeated element, 'any' or a name that does not exist; a regexp that matches some but not all interfaces. Distinct = distinct case lines.",
		Gen:  c16Gen,
		Run:  c16Run,
		Init: func(string) error {
			d, err := os.MkdirTemp("", "verif-c16-")
			c16Root = d
			return err
		},
		Done: func() {
			if c16Root != "" {
				_ = os.RemoveAll(c16Root)
			}
		},
	})
}
